//! replay-rt sendcancel tokio|smol   — the C19 known finding, demonstrated on the real crates over a
//! real Unix socket pair: a send abandoned after a partial kernel write, followed by another send; the
//! peer then reads everything.  Expected by the property: only whole frames, each at most once.
//! exit 1 = the peer saw a corrupted / duplicated frame (finding reproduced), exit 0 = clean.
use serde::{Deserialize, Serialize};
use std::time::Duration;

#[derive(Debug, Serialize, Deserialize, PartialEq, Clone)]
#[serde(tag = "method", content = "parameters")]
enum M {
    #[serde(rename = "a.Big")]
    Big { s: String },
    #[serde(rename = "a.Small")]
    Small { n: u32 },
}

fn judge(bytes: &[u8]) -> i32 {
    let mut whole = 0;
    let mut bad = 0;
    let mut big_seen = 0;
    let mut start = 0;
    for (i, &b) in bytes.iter().enumerate() {
        if b == 0 {
            let f = &bytes[start..i];
            start = i + 1;
            match serde_json::from_slice::<M>(f) {
                Ok(M::Big { .. }) => { whole += 1; big_seen += 1; }
                Ok(_) => whole += 1,
                Err(e) => { bad += 1; println!("peer: frame of {} bytes does not decode: {e}", f.len()); }
            }
        }
    }
    println!("peer received {} bytes: {whole} whole frames, {bad} corrupted frames, big message seen {big_seen} time(s), {} trailing bytes",
             bytes.len(), bytes.len() - start);
    if bad > 0 || big_seen > 1 || start != bytes.len() {
        println!("FINDING REPRODUCED: an abandoned send corrupted what the peer receives afterwards");
        1
    } else {
        println!("clean: only whole frames, each at most once");
        0
    }
}

fn run_smol() -> i32 {
    use futures_lite::{future, AsyncReadExt, FutureExt};
    future::block_on(async {
        let (a, b) = std::os::unix::net::UnixStream::pair().unwrap();
        let a = async_io::Async::new(a).unwrap();
        let mut b = async_io::Async::new(b).unwrap();
        let mut conn = zlink_smol::Connection::new(zlink_smol::unix::Stream::from(a));
        let big = zlink_smol::Call::new(M::Big { s: "x".repeat(1 << 20) });
        let r = async { Some(conn.send_call(&big).await) }
            .or(async { async_io::Timer::after(Duration::from_millis(50)).await; None })
            .await;
        println!("first send: {}", if r.is_none() { "abandoned by timeout (future dropped)" } else { "completed" });
        let small = zlink_smol::Call::new(M::Small { n: 7 });
        let send = async {
            let r2 = conn.send_call(&small).await;
            println!("second send: {r2:?}");
            drop(conn);
        };
        let mut v = Vec::new();
        let recv = async { let _ = b.read_to_end(&mut v).await; };
        future::zip(send, recv).await;
        judge(&v)
    })
}

/// C19 bulk: 128 pipelined 8 KiB calls in ONE flush (1 MiB, several kernel writes) followed by a small call,
/// peer reading concurrently: every call must arrive intact and in order.
fn bulk_calls() -> Vec<M> {
    let mut v: Vec<M> = (0..128).map(|i| M::Big { s: format!("{i:04}{}", "y".repeat(8 * 1024)) }).collect();
    v.push(M::Small { n: 4242 });
    v
}
fn judge_bulk(bytes: &[u8]) -> i32 {
    let want = bulk_calls();
    let mut got = Vec::new();
    let mut start = 0;
    for (i, &b) in bytes.iter().enumerate() {
        if b == 0 {
            got.push(serde_json::from_slice::<M>(&bytes[start..i]).ok());
            start = i + 1;
        }
    }
    let ok = got.len() == want.len() && got.iter().zip(&want).all(|(g, w)| g.as_ref() == Some(w)) && start == bytes.len();
    println!("peer received {} bytes, {} frames ({} undecodable), expected {} frames", bytes.len(), got.len(), got.iter().filter(|g| g.is_none()).count(), want.len());
    if ok { println!("clean: every call arrived intact and in order"); 0 } else { println!("REPLAY: FAILS on the real code (messages lost or corrupted)"); 1 }
}
fn bulk_tokio() -> i32 {
    let rt = tokio::runtime::Builder::new_current_thread().enable_all().build().unwrap();
    let ls = tokio::task::LocalSet::new();
    ls.block_on(&rt, async {
        use tokio::io::AsyncReadExt;
        let (a, mut b) = tokio::net::UnixStream::pair().unwrap();
        let mut conn = zlink_tokio::Connection::new(zlink_tokio::unix::Stream::from(a));
        let reader = tokio::task::spawn_local(async move { let mut v = Vec::new(); let _ = b.read_to_end(&mut v).await; v });
        let calls = bulk_calls();
        for c in &calls[..128] { conn.enqueue_call(&zlink_tokio::Call::new(c)).unwrap(); }
        let r = tokio::time::timeout(Duration::from_secs(20), async { conn.flush().await?; conn.send_call(&zlink_tokio::Call::new(&calls[128])).await }).await;
        println!("sender: {r:?}");
        drop(conn);
        judge_bulk(&reader.await.unwrap())
    })
}
fn bulk_smol() -> i32 {
    use futures_lite::{future, AsyncReadExt};
    future::block_on(async {
        let (a, b) = std::os::unix::net::UnixStream::pair().unwrap();
        let a = async_io::Async::new(a).unwrap();
        let mut b = async_io::Async::new(b).unwrap();
        let mut conn = zlink_smol::Connection::new(zlink_smol::unix::Stream::from(a));
        let calls = bulk_calls();
        let send = async {
            for c in &calls[..128] { conn.enqueue_call(&zlink_smol::Call::new(c)).unwrap(); }
            let r = async { conn.flush().await?; conn.send_call(&zlink_smol::Call::new(&calls[128])).await }.await;
            println!("sender: {r:?}");
            drop(conn);
        };
        let mut v = Vec::new();
        let recv = async { let _ = b.read_to_end(&mut v).await; };
        future::zip(send, recv).await;
        judge_bulk(&v)
    })
}

fn main() {
    if std::env::args().nth(1).as_deref() == Some("bulk") {
        let rc = match std::env::args().nth(2).as_deref() { Some("tokio") => bulk_tokio(), Some("smol") => bulk_smol(), _ => 2 };
        std::process::exit(rc);
    }
    let which = std::env::args().nth(2).unwrap_or_default();
    let rc = match which.as_str() {
        "tokio" => { let ls = tokio::task::LocalSet::new(); let _g = ls.enter(); run_tokio_local(ls) }
        "smol" => run_smol(),
        _ => { eprintln!("usage: replay-rt sendcancel tokio|smol"); 2 }
    };
    std::process::exit(rc);
}

fn run_tokio_local(ls: tokio::task::LocalSet) -> i32 {
    let rt = tokio::runtime::Builder::new_current_thread().enable_all().build().unwrap();
    ls.block_on(&rt, async {
        use tokio::io::AsyncReadExt;
        let (a, mut b) = tokio::net::UnixStream::pair().unwrap();
        let mut conn = zlink_tokio::Connection::new(zlink_tokio::unix::Stream::from(a));
        let big = zlink_tokio::Call::new(M::Big { s: "x".repeat(1 << 20) });
        let r = tokio::time::timeout(Duration::from_millis(50), conn.send_call(&big)).await;
        println!("first send: {}", if r.is_err() { "abandoned by timeout (future dropped)" } else { "completed" });
        let reader = tokio::task::spawn_local(async move {
            let mut v = Vec::new();
            let _ = b.read_to_end(&mut v).await;
            v
        });
        let small = zlink_tokio::Call::new(M::Small { n: 7 });
        let r2 = conn.send_call(&small).await;
        println!("second send: {r2:?}");
        drop(conn);
        judge(&reader.await.unwrap())
    })
}
