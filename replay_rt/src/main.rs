//! replay-rt sendcancel tokio|smol   — the C19 known finding, demonstrated on the real crates over a
//! real Unix socket pair: a send abandoned after a partial kernel write, followed by another send; the
//! peer then reads everything.  Expected by the property: only whole frames, each at most once.
//! exit 1 = the peer saw a corrupted / duplicated frame (finding reproduced), exit 0 = clean.
use serde::{Deserialize, Serialize};
use std::time::Duration;

#[derive(Debug, Serialize, Deserialize, PartialEq, Clone)]
#[serde(tag = "method", content = "parameters")]
enum M {
    #[serde(rename = "a.Big")]
    Big { s: String },
    #[serde(rename = "a.Small")]
    Small { n: u32 },
}

fn judge(bytes: &[u8]) -> i32 {
    let mut whole = 0;
    let mut bad = 0;
    let mut big_seen = 0;
    let mut start = 0;
    for (i, &b) in bytes.iter().enumerate() {
        if b == 0 {
            let f = &bytes[start..i];
            start = i + 1;
            match serde_json::from_slice::<M>(f) {
                Ok(M::Big { .. }) => { whole += 1; big_seen += 1; }
                Ok(_) => whole += 1,
                Err(e) => { bad += 1; println!("peer: frame of {} bytes does not decode: {e}", f.len()); }
            }
        }
    }
    println!("peer received {} bytes: {whole} whole frames, {bad} corrupted frames, big message seen {big_seen} time(s), {} trailing bytes",
             bytes.len(), bytes.len() - start);
    if bad > 0 || big_seen > 1 || start != bytes.len() {
        println!("FINDING REPRODUCED: an abandoned send corrupted what the peer receives afterwards");
        1
    } else {
        println!("clean: only whole frames, each at most once");
        0
    }
}

fn run_smol() -> i32 {
    use futures_lite::{future, AsyncReadExt, FutureExt};
    future::block_on(async {
        let (a, b) = std::os::unix::net::UnixStream::pair().unwrap();
        let a = async_io::Async::new(a).unwrap();
        let mut b = async_io::Async::new(b).unwrap();
        let mut conn = zlink_smol::Connection::new(zlink_smol::unix::Stream::from(a));
        let big = zlink_smol::Call::new(M::Big { s: "x".repeat(1 << 20) });
        let r = async { Some(conn.send_call(&big).await) }
            .or(async { async_io::Timer::after(Duration::from_millis(50)).await; None })
            .await;
        println!("first send: {}", if r.is_none() { "abandoned by timeout (future dropped)" } else { "completed" });
        let small = zlink_smol::Call::new(M::Small { n: 7 });
        let send = async {
            let r2 = conn.send_call(&small).await;
            println!("second send: {r2:?}");
            drop(conn);
        };
        let mut v = Vec::new();
        // the peer starts reading late: the sender must hit a full socket buffer and wait for it to drain
        let recv = async { async_io::Timer::after(Duration::from_millis(150)).await; let _ = b.read_to_end(&mut v).await; };
        future::zip(send, recv).await;
        judge(&v)
    })
}

/// C19 bulk: 128 pipelined 8 KiB calls in ONE flush (1 MiB, several kernel writes) followed by a small call,
/// peer reading concurrently: every call must arrive intact and in order.
fn bulk_calls() -> Vec<M> {
    // a small message first (so that the runtime has observed the socket's write readiness once: a fast path that
    // tries a non-blocking write only takes effect then), the pipelined bulk, a small message last
    let mut v: Vec<M> = vec![M::Small { n: 1 }];
    v.extend((0..128).map(|i| M::Big { s: format!("{i:04}{}", "y".repeat(8 * 1024)) }));
    v.push(M::Small { n: 4242 });
    v
}
fn judge_bulk(bytes: &[u8]) -> i32 {
    let want = bulk_calls();
    let mut got = Vec::new();
    let mut start = 0;
    for (i, &b) in bytes.iter().enumerate() {
        if b == 0 {
            got.push(serde_json::from_slice::<M>(&bytes[start..i]).ok());
            start = i + 1;
        }
    }
    let ok = got.len() == want.len() && got.iter().zip(&want).all(|(g, w)| g.as_ref() == Some(w)) && start == bytes.len();
    println!("peer received {} bytes, {} frames ({} undecodable), expected {} frames", bytes.len(), got.len(), got.iter().filter(|g| g.is_none()).count(), want.len());
    if ok { println!("clean: every call arrived intact and in order"); 0 } else { println!("REPLAY: FAILS on the real code (messages lost or corrupted)"); 1 }
}
fn bulk_tokio() -> i32 {
    let rt = tokio::runtime::Builder::new_current_thread().enable_all().build().unwrap();
    let ls = tokio::task::LocalSet::new();
    ls.block_on(&rt, async {
        use tokio::io::AsyncReadExt;
        let (a, mut b) = tokio::net::UnixStream::pair().unwrap();
        let mut conn = zlink_tokio::Connection::new(zlink_tokio::unix::Stream::from(a));
        // the peer starts reading late: the sender must hit a full socket buffer and wait for it to drain
        let reader = tokio::task::spawn_local(async move { tokio::time::sleep(Duration::from_millis(150)).await; let mut v = Vec::new(); let _ = b.read_to_end(&mut v).await; v });
        let calls = bulk_calls();
        let r0 = tokio::time::timeout(Duration::from_secs(20), conn.send_call(&zlink_tokio::Call::new(&calls[0]))).await;
        tokio::task::yield_now().await;
        for c in &calls[1..129] { conn.enqueue_call(&zlink_tokio::Call::new(c)).unwrap(); }
        let r = tokio::time::timeout(Duration::from_secs(20), async { conn.flush().await?; conn.send_call(&zlink_tokio::Call::new(&calls[129])).await }).await;
        println!("first small send: {r0:?}");
        println!("sender: {r:?}");
        drop(conn);
        judge_bulk(&reader.await.unwrap())
    })
}
fn bulk_smol() -> i32 {
    use futures_lite::{future, AsyncReadExt};
    future::block_on(async {
        let (a, b) = std::os::unix::net::UnixStream::pair().unwrap();
        let a = async_io::Async::new(a).unwrap();
        let mut b = async_io::Async::new(b).unwrap();
        let mut conn = zlink_smol::Connection::new(zlink_smol::unix::Stream::from(a));
        let calls = bulk_calls();
        let send = async {
            let r0 = conn.send_call(&zlink_smol::Call::new(&calls[0])).await;
            futures_lite::future::yield_now().await;
            for c in &calls[1..129] { conn.enqueue_call(&zlink_smol::Call::new(c)).unwrap(); }
            let r = async { conn.flush().await?; conn.send_call(&zlink_smol::Call::new(&calls[129])).await }.await;
            println!("first small send: {r0:?}");
            println!("sender: {r:?}");
            drop(conn);
        };
        let mut v = Vec::new();
        // the peer starts reading late: the sender must hit a full socket buffer and wait for it to drain
        let recv = async { async_io::Timer::after(Duration::from_millis(150)).await; let _ = b.read_to_end(&mut v).await; };
        // watchdog: a transfer that stalls (e.g. the sender waiting for the wrong readiness) IS a loss of messages
        let done = future::or(async { future::zip(send, recv).await; true }, async { async_io::Timer::after(Duration::from_secs(20)).await; false }).await;
        if !done {
            println!("transfer stalled: nothing moved for 20 s with the peer reading continuously");
            println!("REPLAY: FAILS on the real code (messages lost: the transfer never completes)");
            return 1;
        }
        judge_bulk(&v)
    })
}

/// C19 atomic: frames of `size` bytes are sent while the peer does not read, each send polled ONCE and dropped if
/// it cannot complete; as soon as one is abandoned the peer drains everything and one more call is sent to
/// completion.  On a Linux Unix stream socket a single write(2) of a frame this small is queued whole or refused,
/// so -- as long as WriteHalf::write offers the whole unsent remainder in every syscall (U8.*.offers_all) -- the
/// peer sees only whole frames, each at most once, in order.
fn atomic_call(seq: u32, size: usize) -> M { M::Big { s: format!("{seq:08}{}", "z".repeat(size)) } }
fn poll_once<F: std::future::Future>(f: F) -> Option<F::Output> {
    use std::task::{Context, Poll, Wake, Waker};
    struct Noop;
    impl Wake for Noop { fn wake(self: std::sync::Arc<Self>) {} }
    let w = Waker::from(std::sync::Arc::new(Noop));
    let mut cx = Context::from_waker(&w);
    let mut f = std::pin::pin!(f);
    match f.as_mut().poll(&mut cx) { Poll::Ready(o) => Some(o), Poll::Pending => None }
}
fn judge_atomic(bytes: &[u8], size: usize, abandoned: u32) -> i32 {
    let mut seqs: Vec<u32> = Vec::new();
    let mut bad = 0;
    let mut small = 0;
    let mut start = 0;
    for (i, &b) in bytes.iter().enumerate() {
        if b == 0 {
            match serde_json::from_slice::<M>(&bytes[start..i]) {
                Ok(M::Big { s }) if s.len() == size + 8 => seqs.push(s[..8].parse().unwrap_or(u32::MAX)),
                Ok(M::Small { .. }) => small += 1,
                _ => { bad += 1; println!("peer: frame of {} bytes at offset {start} is not a whole frame that was sent", i - start); }
            }
            start = i + 1;
        }
    }
    let ordered = seqs.windows(2).all(|w| w[0] < w[1]);
    let complete = (0..abandoned).all(|s| seqs.contains(&s));
    println!("size {size}: send #{abandoned} abandoned; peer received {} bytes: {} big frames, {small} small, {bad} corrupted, {} trailing bytes, ordered={ordered} complete={complete}",
             bytes.len(), seqs.len(), bytes.len() - start);
    if bad > 0 || !ordered || !complete || small != 1 || start != bytes.len() {
        println!("REPLAY: FAILS on the real code (an abandoned send of a {size}-byte frame corrupted the stream)");
        1
    } else { 0 }
}
fn atomic_tokio(size: usize) -> i32 {
    let rt = tokio::runtime::Builder::new_current_thread().enable_all().build().unwrap();
    let ls = tokio::task::LocalSet::new();
    ls.block_on(&rt, async {
        use tokio::io::AsyncReadExt;
        let (a, mut b) = tokio::net::UnixStream::pair().unwrap();
        a.writable().await.unwrap();   // let the reactor learn the socket is writable, so that the first poll really writes
        let mut conn = zlink_tokio::Connection::new(zlink_tokio::unix::Stream::from(a));
        let mut seq = 0u32;
        let abandoned = loop {
            let m = atomic_call(seq, size);
            match poll_once(conn.send_call(&zlink_tokio::Call::new(&m))) { Some(r) => r.unwrap(), None => break seq }
            seq += 1;
            if seq > 200_000 { println!("socket never filled"); return 2; }
        };
        // the peer starts reading late: the sender must hit a full socket buffer and wait for it to drain
        let reader = tokio::task::spawn_local(async move { tokio::time::sleep(Duration::from_millis(150)).await; let mut v = Vec::new(); let _ = b.read_to_end(&mut v).await; v });
        let r = tokio::time::timeout(Duration::from_secs(20), conn.send_call(&zlink_tokio::Call::new(&M::Small { n: 1 }))).await;
        if !matches!(r, Ok(Ok(()))) { println!("final send: {r:?}"); }
        drop(conn);
        judge_atomic(&reader.await.unwrap(), size, abandoned)
    })
}
fn atomic_smol(size: usize) -> i32 {
    use futures_lite::{future, AsyncReadExt};
    future::block_on(async {
        let (a, b) = std::os::unix::net::UnixStream::pair().unwrap();
        let a = async_io::Async::new(a).unwrap();
        let mut b = async_io::Async::new(b).unwrap();
        let mut conn = zlink_smol::Connection::new(zlink_smol::unix::Stream::from(a));
        let mut seq = 0u32;
        let abandoned = loop {
            let m = atomic_call(seq, size);
            match poll_once(conn.send_call(&zlink_smol::Call::new(&m))) { Some(r) => r.unwrap(), None => break seq }
            seq += 1;
            if seq > 200_000 { println!("socket never filled"); return 2; }
        };
        let send = async {
            let r = conn.send_call(&zlink_smol::Call::new(&M::Small { n: 1 })).await;
            if r.is_err() { println!("final send: {r:?}"); }
            drop(conn);
        };
        let mut v = Vec::new();
        // the peer starts reading late: the sender must hit a full socket buffer and wait for it to drain
        let recv = async { async_io::Timer::after(Duration::from_millis(150)).await; let _ = b.read_to_end(&mut v).await; };
        future::zip(send, recv).await;
        judge_atomic(&v, size, abandoned)
    })
}

/// C20 notified: every sequence of at most `depth` operations over {set, subscribe, poll subscriber i (i < 3)} on a
/// notified State, then a final drain of every subscriber, checked against the property: each subscriber sees values in
/// the order they were set (skipping allowed), every item tagged continues=true, after the drain the last item seen is
/// the most recent value set after it subscribed, and the stream never ends while the State exists.  One-shot: exactly
/// one reply tagged continues=false, then the end; a dropped notifier ends the stream without a reply.
/// A search over schedules on the real crates (witness finder), not a proof.
macro_rules! notified_impl { ($name:ident, $krate:ident) => {
fn $name(depth: usize) -> i32 {
    use futures_util::Stream as _;
    use $krate::notified::{Once, State, Stream};
    // every poll hands the stream a waker that counts its wake-ups: a subscriber that was told Pending must be WOKEN when
    // a newer value is set (otherwise a task awaiting the stream sleeps forever: "always eventually the most recent")
    struct Wakes(std::sync::atomic::AtomicUsize);
    impl std::task::Wake for Wakes { fn wake(self: std::sync::Arc<Self>) { self.0.fetch_add(1, std::sync::atomic::Ordering::SeqCst); } }
    fn poll_stream_w(s: &mut Stream<u32>, w: &std::sync::Arc<Wakes>) -> std::task::Poll<Option<$krate::Reply<u32>>> {
        let waker = std::task::Waker::from(w.clone());
        let mut cx = std::task::Context::from_waker(&waker);
        std::pin::Pin::new(s).poll_next(&mut cx)
    }
    fn poll_stream(s: &mut Stream<u32>) -> std::task::Poll<Option<$krate::Reply<u32>>> {
        poll_stream_w(s, &std::sync::Arc::new(Wakes(std::sync::atomic::AtomicUsize::new(0))))
    }
    // ops: 0 = set, 1 = subscribe, 2..4 = poll subscriber (op - 2), 5 = the state is replaced by a clone of itself (the original dropped), 6 = the state is dropped for good (values set before must still arrive)
    let mut seq = vec![0usize; 0];
    let mut total = 0u64;
    fn run(ops: &[usize]) -> Result<(), String> {
        // (None once the state - every clone of it - has been dropped: op 6)
        let mut state: Option<State<u32, u32>> = Some(State::new(0));
        let dropped = std::cell::Cell::new(false);
        let mut next = 1u32;
        // stream, values seen, value counter at subscription, its waker, Some(wake count) while parked (last poll said Pending)
        let mut subs: Vec<(Stream<u32>, Vec<u32>, u32, std::sync::Arc<Wakes>, Option<usize>)> = Vec::new();
        let step = |subs: &mut Vec<(Stream<u32>, Vec<u32>, u32, std::sync::Arc<Wakes>, Option<usize>)>, i: usize| -> Result<bool, String> {
            let (s, seen, since, w, parked) = &mut subs[i];
            let r = poll_stream_w(s, w);
            *parked = if r.is_pending() { Some(w.0.load(std::sync::atomic::Ordering::SeqCst)) } else { None };
            match r {
                std::task::Poll::Ready(Some(r)) => {
                    if r.continues() != Some(true) { return Err(format!("subscriber {i}: item {:?} is not marked continues=true", r.parameters())); }
                    let v = *r.parameters().ok_or("item without value")?;
                    if v <= *since { return Err(format!("subscriber {i}: received {v}, which was set before it subscribed")); }
                    if let Some(l) = seen.last() { if v <= *l { return Err(format!("subscriber {i}: received {v} after {l} (out of order / duplicate)")); } }
                    seen.push(v);
                    Ok(true)
                }
                // the end of the subscription is legitimate only once the state is gone - and (checked at the drain) only after
                // the values set before that were delivered
                std::task::Poll::Ready(None) if dropped.get() => Ok(false),
                std::task::Poll::Ready(None) => Err(format!("subscriber {i}: the subscription ended while the state still exists")),
                std::task::Poll::Pending => Ok(false),
            }
        };
        for &op in ops {
            match op {
                6 => { state = None; dropped.set(true); }
                0 | 1 | 5 if state.is_none() => {}
                0 => { let state = state.as_mut().unwrap(); if poll_once(state.set(next)).is_none() { return Err("State::set did not complete at once".into()); } if state.get() != next { return Err("get() is not the value just set".into()); } next += 1;
                       for (i, (_, _, _, w, parked)) in subs.iter_mut().enumerate() {
                           if let Some(at) = *parked {
                               if w.0.load(std::sync::atomic::Ordering::SeqCst) == at { return Err(format!("subscriber {i} was told Pending and was NOT woken by the set that followed (lost wake-up: a task awaiting it never sees the new value)")); }
                               *parked = None;
                           }
                       } }
                5 => { let c = state.as_ref().unwrap().clone(); state = Some(c); }   // the state lives on in a clone; the instance it was cloned from is dropped
                1 => { if subs.len() < 3 { let s = state.as_ref().unwrap().stream(); subs.push((s, Vec::new(), next - 1, std::sync::Arc::new(Wakes(std::sync::atomic::AtomicUsize::new(0))), None)); } }
                k => { let i = k - 2; if i < subs.len() && i < 3 { step(&mut subs, i)?; } }
            }
        }
        for i in 0..subs.len() {
            let mut n = 0;
            while step(&mut subs, i)? { n += 1; if n > 100 { return Err("endless items".into()); } }
            let latest = next - 1;
            let (_, seen, since, _, _) = &subs[i];
            if latest > *since && seen.last() != Some(&latest) {
                return Err(format!("subscriber {i} (subscribed after value {since}) was drained but its last item is {:?}, not the most recent value {latest}", seen.last()));
            }
        }
        Ok(())
    }
    let mut rc = 0;
    'outer: loop {
        total += 1;
        if let Err(e) = run(&seq) {
            println!("schedule {:?} (0 = set, 1 = subscribe, 2..4 = poll subscriber k-2, 5 = state replaced by its clone, 6 = state dropped): {e}", seq);
            println!("REPLAY: FAILS on the real code");
            rc = 1;
            break;
        }
        // next sequence (all lengths up to depth, alphabet 0..5)
        let mut i = seq.len();
        loop {
            if i == 0 { if seq.len() == depth { break 'outer; } seq = vec![0; seq.len() + 1]; break; }
            i -= 1;
            if seq[i] < 6 { seq[i] += 1; for j in i + 1..seq.len() { seq[j] = 0; } break; }
        }
    }
    // one-shot: notify before / after the first poll; notifier dropped
    let once = |notify_first: bool, drop_notifier: bool| -> Result<(), String> {
        let (tx, mut s): (Once<u32>, Stream<u32>) = Once::new();
        let mut tx = Some(tx);
        let w = std::sync::Arc::new(Wakes(std::sync::atomic::AtomicUsize::new(0)));
        if !notify_first { if !matches!(poll_stream_w(&mut s, &w), std::task::Poll::Pending) { return Err("one-shot: ready before any notification".into()); } }
        if drop_notifier { drop(tx.take()); } else { tx.take().unwrap().notify(7u32); }
        if !notify_first && w.0.load(std::sync::atomic::Ordering::SeqCst) == 0 { return Err(format!("one-shot (dropped={drop_notifier}): the stream was told Pending and was not woken by the notification")); }
        match poll_stream(&mut s) {
            std::task::Poll::Ready(Some(r)) if !drop_notifier => { if r.continues() != Some(false) || r.parameters() != Some(&7) { return Err(format!("one-shot reply wrong: {:?} continues={:?}", r.parameters(), r.continues())); } }
            std::task::Poll::Ready(None) if drop_notifier => {}
            _ => return Err(format!("one-shot (notify_first={notify_first}, dropped={drop_notifier}): unexpected first result")),
        }
        for _ in 0..3 { if !matches!(poll_stream(&mut s), std::task::Poll::Ready(None)) { return Err("one-shot: stream did not end after its single reply".into()); } }
        Ok(())
    };
    for (a, b) in [(true, false), (false, false), (true, true), (false, true)] {
        if let Err(e) = once(a, b) { println!("{e}\nREPLAY: FAILS on the real code"); rc = 1; }
    }
    println!("{}: {total} schedules of at most {depth} operations + 4 one-shot scenarios: {}", stringify!($krate), if rc == 0 { "clean" } else { "FAILED" });
    rc
}
}}
notified_impl!(notified_tokio, zlink_tokio);
notified_impl!(notified_smol, zlink_smol);

/// C19 halves: the two halves of a connection are independent directions of ONE socket.  The connection is split, the
/// write half is dropped (a writer task that finished), and the peer goes on sending: the read half must still receive
/// every frame, in order - dropping one half must not disturb the other direction.
fn halves_frames() -> Vec<Vec<u8>> {
    (0..40u32).map(|i| { let mut f = format!(r#"{{"parameters":{{"n":{i},"pad":"{}"}}}}"#, "p".repeat(1000 * (i as usize % 5))).into_bytes(); f.push(0); f }).collect()
}
#[derive(Debug, serde::Deserialize)]
struct HalvesP { n: u32 }
#[derive(Debug, serde::Deserialize)]
#[serde(tag = "error", content = "parameters")]
enum HalvesE {}
fn halves_tokio() -> i32 {
    let rt = tokio::runtime::Builder::new_current_thread().enable_all().build().unwrap();
    let ls = tokio::task::LocalSet::new();
    ls.block_on(&rt, async {
        use tokio::io::AsyncWriteExt;
        let (a, mut b) = tokio::net::UnixStream::pair().unwrap();
        let conn = zlink_tokio::Connection::new(zlink_tokio::unix::Stream::from(a));
        let (mut read, write) = conn.split();
        drop(write);
        let writer = tokio::task::spawn_local(async move { for f in halves_frames() { if let Err(e) = b.write_all(&f).await { return Err(format!("{e}")); } tokio::task::yield_now().await; } Ok(b) });
        let mut got = Vec::new();
        for _ in 0..40 {
            match tokio::time::timeout(Duration::from_secs(10), read.receive_reply::<HalvesP, HalvesE>()).await {
                Ok(Ok(Ok(r))) => got.push(r.parameters().map(|p| p.n)),
                other => { println!("receive #{} failed: {other:?}", got.len()); break; }
            }
        }
        let w = writer.await.unwrap();
        judge_halves(&got, w.err())
    })
}
fn halves_smol() -> i32 {
    use futures_lite::{future, AsyncWriteExt};
    future::block_on(async {
        let (a, b) = std::os::unix::net::UnixStream::pair().unwrap();
        let a = async_io::Async::new(a).unwrap();
        let mut b = async_io::Async::new(b).unwrap();
        let conn = zlink_smol::Connection::new(zlink_smol::unix::Stream::from(a));
        let (mut read, write) = conn.split();
        drop(write);
        let send = async { for f in halves_frames() { if let Err(e) = b.write_all(&f).await { return Some(format!("{e}")); } future::yield_now().await; } None };
        let recv = async {
            let mut got = Vec::new();
            for _ in 0..40 {
                let r = future::or(async { Some(read.receive_reply::<HalvesP, HalvesE>().await) }, async { async_io::Timer::after(Duration::from_secs(10)).await; None }).await;
                match r { Some(Ok(Ok(r))) => got.push(r.parameters().map(|p| p.n)), other => { println!("receive #{} failed: {:?}", got.len(), other.map(|x| x.map(|_| ()).map_err(|e| format!("{e:?}")))); break; } }
            }
            got
        };
        let (werr, got) = future::zip(send, recv).await;
        judge_halves(&got, werr)
    })
}
fn judge_halves(got: &[Option<u32>], write_err: Option<String>) -> i32 {
    let want: Vec<Option<u32>> = (0..40u32).map(Some).collect();
    println!("peer write error: {write_err:?}; read half received {} of 40 replies", got.len());
    if got == want.as_slice() && write_err.is_none() { println!("clean: the read half received every frame after the write half was dropped"); 0 }
    else { println!("REPLAY: FAILS on the real code (dropping the write half disturbed the other direction)"); 1 }
}

/// C19 hangup: the peer sends its frames and closes while data WE sent is still unread in its receive queue: the kernel then
/// hands out the queued frames first and reports ECONNRESET on the read after them.  Every frame the peer sent must be
/// received before the error is reported (an adapter that drops the bytes of a successful read because a LATER read failed
/// loses whole frames).
fn hangup_frames() -> Vec<Vec<u8>> {
    (0..3u32).map(|i| { let mut f = format!(r#"{{"parameters":{{"n":{i}}}}}"#).into_bytes(); f.push(0); f }).collect()
}
fn judge_hangup(got: &[Option<u32>]) -> i32 {
    let want: Vec<Option<u32>> = (0..3u32).map(Some).collect();
    println!("the peer sent 3 replies and hung up with unread data of ours in its queue; received {:?}", got);
    if got == want.as_slice() { println!("clean: every frame the peer sent was received before the reset was reported"); 0 }
    else { println!("frames sent by the peer were LOST\nREPLAY: FAILS on the real code"); 1 }
}
fn hangup_tokio() -> i32 {
    let rt = tokio::runtime::Builder::new_current_thread().enable_all().build().unwrap();
    rt.block_on(async {
        use tokio::io::AsyncWriteExt;
        let (a, mut b) = tokio::net::UnixStream::pair().unwrap();
        let mut conn = zlink_tokio::Connection::new(zlink_tokio::unix::Stream::from(a));
        // something of ours that the peer never reads
        let _ = conn.send_call(&zlink_tokio::Call::new(M::Big { s: "unread".into() })).await;
        for f in hangup_frames() { b.write_all(&f).await.unwrap(); }
        drop(b);
        let mut got = Vec::new();
        for _ in 0..3 {
            match tokio::time::timeout(Duration::from_secs(10), conn.receive_reply::<HalvesP, HalvesE>()).await {
                Ok(Ok(Ok(r))) => got.push(r.parameters().map(|p| p.n)),
                other => { println!("receive #{} failed: {other:?}", got.len()); break; }
            }
        }
        judge_hangup(&got)
    })
}
fn hangup_smol() -> i32 {
    use futures_lite::{future, AsyncWriteExt};
    future::block_on(async {
        let (a, b) = std::os::unix::net::UnixStream::pair().unwrap();
        let a = async_io::Async::new(a).unwrap();
        let mut b = async_io::Async::new(b).unwrap();
        let mut conn = zlink_smol::Connection::new(zlink_smol::unix::Stream::from(a));
        let _ = conn.send_call(&zlink_smol::Call::new(M::Big { s: "unread".into() })).await;
        for f in hangup_frames() { b.write_all(&f).await.unwrap(); }
        drop(b);
        let mut got = Vec::new();
        for _ in 0..3 {
            let r = future::or(async { Some(conn.receive_reply::<HalvesP, HalvesE>().await) }, async { async_io::Timer::after(Duration::from_secs(10)).await; None }).await;
            match r { Some(Ok(Ok(r))) => got.push(r.parameters().map(|p| p.n)), other => { println!("receive #{} failed: {:?}", got.len(), other.map(|x| x.map(|_| ()).map_err(|e| format!("{e:?}")))); break; } }
        }
        judge_hangup(&got)
    })
}
fn main() {
    if std::env::args().nth(1).as_deref() == Some("hangup") {
        std::process::exit(match std::env::args().nth(2).as_deref() { Some("tokio") => hangup_tokio(), Some("smol") => hangup_smol(), _ => 2 });
    }
    if std::env::args().nth(1).as_deref() == Some("notified") {
        let depth: usize = std::env::args().nth(3).and_then(|d| d.parse().ok()).unwrap_or(6);
        let rc = match std::env::args().nth(2).as_deref() { Some("tokio") => notified_tokio(depth), Some("smol") => notified_smol(depth), _ => 2 };
        std::process::exit(rc);
    }
    if std::env::args().nth(1).as_deref() == Some("halves") {
        std::process::exit(match std::env::args().nth(2).as_deref() { Some("tokio") => halves_tokio(), Some("smol") => halves_smol(), _ => 2 });
    }
    if std::env::args().nth(1).as_deref() == Some("atomic") {
        let mut rc = 0;
        for size in [1_000usize, 6_000, 14_000, 30_000] {
            let r = match std::env::args().nth(2).as_deref() { Some("tokio") => atomic_tokio(size), Some("smol") => atomic_smol(size), _ => 2 };
            if r != 0 { rc = r; }
        }
        if rc == 0 { println!("clean: only whole frames, each at most once, in order"); }
        std::process::exit(rc);
    }
    if std::env::args().nth(1).as_deref() == Some("bulk") {
        let rc = match std::env::args().nth(2).as_deref() { Some("tokio") => bulk_tokio(), Some("smol") => bulk_smol(), _ => 2 };
        std::process::exit(rc);
    }
    let which = std::env::args().nth(2).unwrap_or_default();
    let rc = match which.as_str() {
        "tokio" => { let ls = tokio::task::LocalSet::new(); let _g = ls.enter(); run_tokio_local(ls) }
        "smol" => run_smol(),
        _ => { eprintln!("usage: replay-rt sendcancel tokio|smol"); 2 }
    };
    std::process::exit(rc);
}

fn run_tokio_local(ls: tokio::task::LocalSet) -> i32 {
    let rt = tokio::runtime::Builder::new_current_thread().enable_all().build().unwrap();
    ls.block_on(&rt, async {
        use tokio::io::AsyncReadExt;
        let (a, mut b) = tokio::net::UnixStream::pair().unwrap();
        let mut conn = zlink_tokio::Connection::new(zlink_tokio::unix::Stream::from(a));
        let big = zlink_tokio::Call::new(M::Big { s: "x".repeat(1 << 20) });
        let r = tokio::time::timeout(Duration::from_millis(50), conn.send_call(&big)).await;
        println!("first send: {}", if r.is_err() { "abandoned by timeout (future dropped)" } else { "completed" });
        let reader = tokio::task::spawn_local(async move {
            let mut v = Vec::new();
            let _ = b.read_to_end(&mut v).await;
            v
        });
        let small = zlink_tokio::Call::new(M::Small { n: 7 });
        let r2 = conn.send_call(&small).await;
        println!("second send: {r2:?}");
        drop(conn);
        judge(&reader.await.unwrap())
    })
}
