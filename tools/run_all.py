#!/usr/bin/env python3
"""Run every registered quick (or thorough) check on the current tree, validate evidence; used before committing evidence."""
import json, os, subprocess, sys, time
from concurrent.futures import ThreadPoolExecutor
HERE = os.path.dirname(os.path.dirname(os.path.abspath(__file__)))
m = json.load(open(os.path.join(HERE, "MANIFEST.json")))
tier = sys.argv[1] if len(sys.argv) > 1 else "quick"
only = set(sys.argv[2:])
def run(c):
    cmd = c["quick_cmd"] if tier == "quick" else c.get("thorough_cmd", c["quick_cmd"])
    t0 = time.time()
    p = subprocess.run(cmd, shell=True, cwd=HERE, capture_output=True, text=True)
    return c["property_id"], p.returncode, time.time() - t0, (p.stdout + p.stderr).strip().splitlines()[-3:]
checks = [c for c in m["checks"] if not only or c["property_id"] in only]
bad = 0
with ThreadPoolExecutor(max_workers=int(os.environ.get("JOBS", "3"))) as ex:
    for pid, rc, dt, tail in ex.map(run, checks):
        print(f"{pid}: rc={rc} {dt:.1f}s  {' | '.join(tail)[-300:]}")
        bad += rc != 0
try:
    sys.path.insert(0, "/opt/veriftools/pyvenv/lib/python3.11/site-packages")
    import jsonschema
    sch = json.load(open("/root/.vp/EVIDENCE.schema.json"))
    for c in checks:
        e = json.load(open(c["evidence_file"]))
        jsonschema.validate(e, sch)
        cov = e["coverage"]
        if e["level"] == "proof" and cov.get("obligations") != cov.get("discharged"):
            print("EVIDENCE PROBLEM", c["property_id"], cov.get("obligations"), cov.get("discharged")); bad += 1
    jsonschema.validate(m, json.load(open("/root/.vp/MANIFEST.schema.json")))
    print("manifest + evidence valid")
except ImportError:
    print("jsonschema not importable; skipped validation")
sys.exit(1 if bad else 0)
