#!/bin/bash
# seedconfirm.sh <id> <demo-dest-relative-path> <demo command (run in the worktree)>
# Confirms a sub-agent's seeded change in its scratch worktree /tmp/seed/<id>:
#  (1) patch applies to a clean checkout, (2) the existing suite passes with it (demo moved aside),
#  (3) demo fails with it, (4) demo passes without it.  Prints a JSON summary line.
set -u
id="$1"; dest="$2"; shift 2; democmd="$*"
wt=/tmp/seed/$id; del=$wt/_deliver
export CARGO_TARGET_DIR=$wt/target CARGO_NET_OFFLINE=true
cd "$wt" || exit 9
cp "$del/patch.diff" /tmp/seed/$id.patch; cp "$del/demo.rs" /tmp/seed/$id.demo.rs
git checkout -q -- . ; rm -f "$dest"
git apply --check /tmp/seed/$id.patch || { echo "PATCH DOES NOT APPLY"; exit 1; }
git apply /tmp/seed/$id.patch
suite=$(cargo nextest run --workspace --no-fail-fast --offline --test-threads 8 2>&1 | grep -E "^\s*Summary" | tail -1)
echo "suite with change: $suite"
mkdir -p "$(dirname "$dest")"; cp /tmp/seed/$id.demo.rs "$dest"
bash -c "$democmd" > /tmp/seed/$id.with.log 2>&1; rc_with=$?
git apply -R /tmp/seed/$id.patch
bash -c "$democmd" > /tmp/seed/$id.without.log 2>&1; rc_without=$?
git apply /tmp/seed/$id.patch
echo "demo with change rc=$rc_with ; without change rc=$rc_without"
tail -5 /tmp/seed/$id.with.log
echo "{\"id\":\"$id\",\"suite\":\"$suite\",\"demo_with_rc\":$rc_with,\"demo_without_rc\":$rc_without}"
