#!/bin/bash
# benigntest.sh <patch.diff> [props...] : apply a behaviour-preserving change to /repo, run the quick checks (all by default), undo it.
# Every check should still exit 0: exit 1 is a false alarm, exit 2 means the change defeated the extraction or the proof.
set -u
patch="$1"; shift
cd /repo || exit 9
git diff --quiet || { echo "/repo not clean"; exit 9; }
git apply "$patch" || { echo "patch does not apply"; exit 9; }
( cd /verif && JOBS=5 python3 tools/run_all.py quick "$@" 2>&1 | grep -E "^C[0-9]+: rc=" | sed -E 's/^(C[0-9]+: rc=[0-9]+) [0-9.]+s +(.*)$/\1 \2/' | cut -c1-260 | grep -v "rc=0" )
echo "(checks not listed above: rc=0)"
git -C /repo checkout -- .
