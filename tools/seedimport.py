#!/usr/bin/env python3
"""seedimport.py <id> <property> <change> <needs> <demo_dest> <demo_cmd> <checks_json>
copies /tmp/seed/<id>/_deliver into /verif/seeded/<id>/ and writes meta.json (confirmation data from seedconfirm.sh's last JSON line)"""
import json, os, shutil, subprocess, sys
sid, prop, change, needs, dest, cmd, checks = sys.argv[1:8]
src = f"/tmp/seed/{sid}/_deliver"; dst = f"/verif/seeded/{sid}"
os.makedirs(dst, exist_ok=True)
for f in os.listdir(src):
    shutil.copy(os.path.join(src, f), os.path.join(dst, f))
out = subprocess.run(["/verif/tools/seedconfirm.sh", sid, dest, cmd], capture_output=True, text=True).stdout
conf = json.loads(out.strip().splitlines()[-1])
ok = "185 passed" in conf["suite"] and conf["demo_with_rc"] != 0 and conf["demo_without_rc"] == 0
meta = {"seed": sid, "breaks_property": prop, "change": change, "needs_to_manifest": needs,
        "origin": "written by a fresh sub-agent given only the property text (plus source file names / a one-line list of earlier seeds to avoid) and a scratch worktree",
        "confirmed": {"existing_suite_with_change": conf["suite"].strip(), "demo_with_change": f"fails (rc={conf['demo_with_rc']})",
                      "demo_without_change": f"passes (rc={conf['demo_without_rc']})", "how": f"tools/seedconfirm.sh {sid} {dest} '{cmd}' in scratch worktree /tmp/seed/{sid}"},
        "demo_placement": dest, "demo_command": cmd,
        "checks_run": json.loads(checks), "how_checks_were_run": f"tools/seedtest.sh seeded/{sid}/patch.diff <props>"}
json.dump(meta, open(os.path.join(dst, "meta.json"), "w"), indent=1)
print("CONFIRMED" if ok else "NOT CONFIRMED", conf)
