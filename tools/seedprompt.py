#!/usr/bin/env python3
"""seedprompt.py <seed-id> <property> [avoid-text]: creates the scratch worktree /tmp/seed/<seed-id> of /repo and prints the
prompt for a fresh sub-agent (property text only; nothing from /verif)."""
import json, os, subprocess, sys
sid, prop = sys.argv[1], sys.argv[2]
avoid = sys.argv[3] if len(sys.argv) > 3 else ""
p = [json.loads(l) for l in open("/verif/properties.jsonl") if json.loads(l)["id"] == prop][0]
wt = f"/tmp/seed/{sid}"
os.makedirs("/tmp/seed", exist_ok=True)
if not os.path.isdir(wt):
    subprocess.run(["git", "-C", "/repo", "worktree", "add", "--detach", wt, "HEAD"], check=True, capture_output=True)
print(f"""You are helping to test a verification effort for the Rust workspace z-galaxy/zlink (an async, no-std-capable implementation of the Varlink JSON IPC protocol). You have your own scratch git worktree of the repository at {wt} (work ONLY there; never touch /repo or /verif and do not read /verif). The sandbox has no network: use `cargo ... --offline` and set CARGO_TARGET_DIR={wt}/target for every cargo command.

Here is a semantic property that the code is supposed to have:

TITLE: {p['title']}
STATEMENT: {p['statement']}
QUANTIFIED OVER: {p['quantifier']['text']}
RELEVANT FILES: {', '.join(p['anchors']['files'])}

Your task: write ONE realistic change to the zlink source (the kind of change a maintainer could plausibly make: an optimisation, a refactoring, a 'simplification', a new fast path, a tidy-up that gets a corner wrong) that BREAKS this property while the workspace still compiles and the existing test suite still passes completely: `cd {wt} && CARGO_TARGET_DIR={wt}/target cargo nextest run --workspace --no-fail-fast --offline --test-threads 8` must report 185 passed (if nextest is missing use cargo test --workspace --offline).

The change must need something SPECIFIC to manifest - a particular interleaving or abandonment point, a fault at a particular point, a multi-step sequence of operations, an unusual input, or two cooperating sites that each look fine alone - not something ordinary use would expose at once. Do not touch tests, Cargo files or documentation; keep the patch small (well under 80 changed lines) and plausible (sensible comments, no markers such as 'BUG'). {avoid}

Also write a demonstration: one self-contained Rust integration test file (placed e.g. at zlink-core/tests/<name>_demo.rs, or zlink-tokio/tests/.. / zlink-smol/tests/.. if it needs a runtime) using only the crates' public API and existing dev-dependencies, which FAILS with your change and PASSES without it. Verify both yourself (git stash or git apply -R to test without).

Deliver, in {wt}/_deliver/ :
  patch.diff       - `git diff` of the source change only (NOT the demo file), relative to the worktree root, applying cleanly with `git apply` to a clean checkout
  demo.rs          - the demonstration test file
  README.agent.md  - what the change is, why it breaks the property, exactly what it needs to manifest, where the demo file must be placed and the exact command to run it (features included), and what you ran to confirm (suite result with the change; demo with / without).
Finish with a short report: the one-line description of the change, what it needs to manifest, demo placement path and command.""")
