#!/usr/bin/env python3
"""One-off / idempotent: add `//@ params ..` (canonical parameter names, by position) to every fn extract of the templates,
taken from the CURRENT source, so that a later rename of a parameter in /repo is alpha-renamed back (rule N33)."""
import os, re, sys, glob
sys.path.insert(0, os.path.dirname(__file__))
import extract
from rustlex import lex
REPO = os.environ.get("VERIF_REPO", "/repo")
cache = {}
def toks_of(f):
    if f not in cache:
        cache[f] = lex(open(os.path.join(REPO, f)).read())
    return cache[f]
n = 0
for path in glob.glob("/verif/contracts/*.vrs") + glob.glob("/verif/contracts/shared/*.vrs"):
    lines = open(path).read().split("\n")
    out = []
    i = 0
    while i < len(lines):
        ln = lines[i]
        out.append(ln)
        s = ln.strip()
        if s.startswith("//@extract "):
            kv = extract.parse_kv(s[len("//@extract "):])
            # already has params?
            j = i + 1
            has = False
            while j < len(lines) and not lines[j].strip().startswith("//@end"):
                if lines[j].strip().startswith("//@ params"):
                    has = True
                j += 1
            if not has and "file" in kv:
                try:
                    toks = toks_of(kv["file"])
                    loc = extract.locate(toks, kv["path"])
                    if loc["kind"] == "fn":
                        ci = loc["ci"]
                        a, b = ci[loc["start"]], ci[loc["end"] - 1] + 1
                        pieces = extract.pieces_from(toks, a, b)
                        names, _ = extract.fn_param_names(pieces)
                        if names and any(x for x in names):
                            out.append("//@ params " + " ".join(x or "_" for x in names))
                            n += 1
                except extract.ExtractError as e:
                    if not kv.get("optional"):
                        print("skip", kv.get("id"), e)
        i += 1
    open(path, "w").write("\n".join(out))
print("added params to", n, "extracts")
