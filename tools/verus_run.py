"""Run Verus on one generated file and parse what it says."""
import json
import os
import re
import shutil
import subprocess
import time

VERUS = shutil.which("verus") or "/usr/local/bin/verus"

# messages that are failures of a proof obligation
OBLIGATION_MSGS = [
    "postcondition not satisfied", "precondition not satisfied", "assertion failed",
    "loop invariant not satisfied", "invariant not satisfied at end of loop body",
    "invariant not satisfied before loop", "decreases not satisfied", "could not prove termination",
    "possible arithmetic underflow/overflow", "possible division by zero", "possible bit shift underflow/overflow",
    "unable to prove assertion safe from overflow", "loop ensures not satisfied",
    "failed to prove decreases", "index out of bounds", "call to unreachable",
    "cannot show invariant holds", "constructed value may fail to meet its declared type invariant",
]
UNDECIDED_MSGS = ["Resource limit (rlimit) exceeded", "rlimit", "timed out", "SMT solver", "internal error", "panicked"]


def classify(msg):
    for m in OBLIGATION_MSGS:
        if m in msg:
            return "obligation"
    for m in UNDECIDED_MSGS:
        if m in msg:
            return "undecided"
    return "other"


def run(rs_path, log_dir=None, seed=None, rlimit=None, threads=8, multiple_errors=60, extra=()):
    args = [VERUS, rs_path, "--output-json", "--time-expanded", "--error-format=json",
            "--multiple-errors", str(multiple_errors), "--num-threads", str(threads)]
    if log_dir:
        shutil.rmtree(log_dir, ignore_errors=True)
        args += ["--log", "air", "--log-dir", log_dir]
    if seed is not None:
        args += ["--smt-option", f"smt.random_seed={seed}", "--smt-option", f"sat.random_seed={seed}"]
    if rlimit is not None:
        args += ["--rlimit", str(rlimit)]
    args += list(extra)
    t0 = time.time()
    p = subprocess.run(args, capture_output=True, text=True, cwd=os.path.dirname(rs_path) or ".")
    wall = time.time() - t0
    res = {"cmd": " ".join(args), "wall_s": wall, "returncode": p.returncode, "diagnostics": [], "functions": {},
           "verified": 0, "errors": 0, "raw_stderr_tail": p.stderr[-4000:], "json_ok": False}
    try:
        out = json.loads(p.stdout)
        res["json_ok"] = True
        vr = out.get("verification-results", {})
        res["verified"] = vr.get("verified", 0)
        res["errors"] = vr.get("errors", 0)
        res["encountered_vir_error"] = vr.get("encountered-vir-error", False)
        smt = out.get("times-ms", {}).get("smt", {})
        res["smt_ms"] = smt.get("smt-run", 0)
        for mod in smt.get("smt-run-module-times", []):
            for f in mod.get("function-breakdown", []):
                res["functions"][f["function"]] = {"mode": f.get("mode:"), "ms": f.get("time"), "rlimit": f.get("rlimit"),
                                                   "success": f.get("success")}
        res["verus_version"] = out.get("verus", {}).get("version") or out.get("times-ms", {}).get("verus-build", {}).get("version")
    except Exception:
        pass
    for line in p.stderr.splitlines():
        line = line.strip()
        if not line.startswith("{"):
            continue
        try:
            d = json.loads(line)
        except Exception:
            continue
        if d.get("level") not in ("error", "warning", "note") or "message" not in d:
            continue
        if d.get("level") != "error":
            continue
        msg = d["message"]
        if msg.startswith("aborting due to"):
            continue
        spans = []

        def collect(x):
            for s in x.get("spans", []):
                spans.append({"file": s.get("file_name"), "line_start": s.get("line_start"), "line_end": s.get("line_end"),
                              "primary": s.get("is_primary"), "label": s.get("label")})
            for c in x.get("children", []):
                collect(c)
        collect(d)
        res["diagnostics"].append({"message": msg, "class": classify(msg), "spans": spans, "rendered": d.get("rendered", "")})
    if log_dir and os.path.isdir(log_dir):
        res["air_asserts"] = count_air_asserts(log_dir)
    return res


def count_air_asserts(log_dir):
    """obligations generated per function: labelled (assert ..) inside check-valid queries of the AIR log"""
    counts = {}
    for fn in os.listdir(log_dir):
        if not fn.endswith(".air"):
            continue
        cur = None
        with open(os.path.join(log_dir, fn), errors="replace") as f:
            for line in f:
                m = re.match(r";; Function-Def (\S+)", line)
                if m:
                    cur = m.group(1)
                    continue
                if line.startswith(";; Function-") or line.startswith(";; Trait-") or line.startswith(";; Datatype"):
                    if not line.startswith(";; Function-Def"):
                        cur = None
                if cur is not None:
                    n = len(re.findall(r"\(assert\b", line))
                    if n:
                        counts[cur] = counts.get(cur, 0) + n
    return counts
