#!/usr/bin/env python3
"""Regenerate MANIFEST.json from the per-property table below (kept in one place so that the
claimed set, the not_applicable list and the technique fields stay consistent)."""
import json, os
HERE = os.path.dirname(os.path.dirname(os.path.abspath(__file__)))
TECH = "contract-based deductive verification (Verus) of mechanically extracted real functions"
CLAIMED = {
 "C01": dict(cat="proof", ref="5 C01", tech=TECH,
   text="Verus discharges, for all wires of non-empty NUL-terminated frames and all chunkings (the transport read returns any n <= buf.len()), that each receive (receive_call, receive_reply, read_message::<M>) returns decode(next frame) and advances exactly past its terminator; loops by invariants, production constants, no bound",
   note="assumed: transport read contract, serde_json::from_slice = deterministic function of exactly the bytes given, vstd specs of Vec/slice, two std leaf helpers; induction over successive calls on paper"),
 "C02": dict(cat="proof", ref="5 C02", tech=TECH,
   text="every enqueue/send/flush of WriteConnection is proved against the history variable stream() = concat(write log) + pending: accepted message => stream grows by exactly enc(value)+NUL, refused => unchanged; flush = one write of everything pending, none when empty",
   note="assumed: to_slice through its contract [U3.to_slice] (proved separately as far as unit json_bytes goes), transport write contract, vstd Vec specs"),
 "C03": dict(cat="proof", ref="5 C03", tech=TECH,
   text="per serde data-model call, the bytes appended by the real json_ser.rs functions equal a spec of compact JSON, for all inputs and all free-space values: write_all (all-or-nothing), the 256-entry escape table, the escaped-string loop (unbounded; unreachable_unchecked proved unreachable; both from_utf8_unchecked preconditions discharged), every Formatter method, all 30 Serializer methods, all 30 MapKeySerializer methods (integers quoted, strings/chars/unit variants as strings, everything else refused with nothing written), the 15 Compound methods (comma/colon/bracket state machine against the stub Serialize contract), and to_slice against the very contract text that unit write_path assumes; corollary lemma: no byte < 0x20 inside an encoded string",
   note="assumed: the spec enc is a faithful transcription of serde_json's CompactFormatter (cross-checked, not decided, by a differential runner real to_slice vs serde_json::to_vec); itoa/ryu/classify/encode_utf8 contracts; one UTF-8 cut-at-ASCII axiom; slice length <= isize::MAX; monomorphic instance only (N5); user Serialize impls meet the stub contract; lifting to all Serialize values (structural induction) on paper; 'BufferTooSmall only when it does not fit' is proved for every built-in method (leaf writers, escaped strings, byte arrays, all Serializer / MapKeySerializer / Compound methods) and is part of the stub contract assumed of user Serialize impls"),
 "C05": dict(cat="proof", ref="12 C05", tech=TECH + " (the hand-written Call (de)serialisers against ghost-log stubs of the serde traits)",
   text="CALL ENVELOPE ONLY (zlink-core/src/call/ser.rs, de.rs): Call::serialize writes ONE map - the method type's own entries in order, then oneway / more / upgrade exactly when set and as true - closes it once, and propagates every error; FlatSerializer forwards keys and values untouched, leaves the envelope open at the inner end(), and each of its 28 other Serializer methods refuses with nothing written (a method type that is not struct- or map-shaped is refused); FilterMap::next_key_seed (unbounded while-let loop, by invariant) shows the method type exactly the members that are not flags, in order, records the last boolean value of each flag wherever it stands, terminates; next_value_seed streams values untouched; visit_map returns flags = last member of that name or false when absent, and a method decoded from the other members only",
   note="NOT decided: every other part of the property - ReplyError / Reply derive output, 'parameters absent/null/{}', standard service methods and errors, proxy methods without outputs (serde-derive and proc-macro output); the serde traits on both sides and the method type are assumed stubs; round trip on paper + bounded search harness through serde_json"),
 "C06": dict(cat="proof", ref="5 C06", tech=TECH,
   text="Chain::new/append keep call_count/reply_count = number of calls / of non-oneway calls and enqueue each call as one frame; ReplyStream::new starts done iff no reply is owed; the accounting statements of poll_next (extracted fragment) advance the index exactly on a final reply or method error and set done exactly on error or when the owed count is reached; a proved counting lemma shows a conforming reply script is consumed exactly",
   note="assumed/unverified: Chain::send and the pin-projection / unsafe / ready! plumbing of poll_next around the fragment; enqueue_call via its write_path contract; composition with C01 on paper"),
 "C07": dict(cat="proof", ref="5 C07", tech="contract-based deductive verification (Verus): cancel-point assertions of the representation invariant at every removed .await",
   text="at every .await of the receive path the invariant that the next receive requires, with unchanged delivered count and wire, is asserted and discharged for every loop iteration and for any content of the lent spare buffer tail",
   note="assumed: the transport's read future is itself cancel safe (trait obligation); scheduling abstracted to 'the future may be dropped at any await'"),
 "C08": dict(cat="proof", ref="5 C08", tech=TECH,
   text="per-call step: Server::handle_call writes nothing for a oneway call, hands back a stream without writing, or performs exactly one write of one final reply / error frame on the calling connection's writer; plus the connection bookkeeping statements of Server::run (extracted fragments): after a call the connection is kept (Ok(None)), parked with its stream, or dropped on read/write failure - exactly that connection, no other moves; after a stream item nothing moves, at stream end exactly that connection returns to the call list, on write failure only that subscription is dropped",
   note="NOT decided: ordering across iterations and multi-connection routing live in the select_biased! loop of Server::run (macro, awaits, unsafe reborrow) - only its straight-line statements are under contract; service answer arbitrary; send_* via contracts proved in write_path"),
 "C18": dict(cat="proof", ref="12 C18", tech=TECH + "; Kani/CBMC harnesses on the unmodified file as a bounded cross-check",
   text="for EVERY number of futures, every start index and every readiness pattern the real SelectAll::poll polls in rotation order s, s+1, ... (s = start % n), each at most once, stops at and returns the first ready one, Pending iff none (Verus, unbounded); lemma over that contract: started at winner+1 the previous winner is last, so it does not win again while another is ready; Verus also proves the glue of Server::run (winner recorded for every call, next start = winner + 1) and get_next_call (round starts exactly at the caller's index over one future per connection in list order); Kani re-checks rotation and two rounds on the unmodified file for n <= 5 (quick: 3)",
   note="assumed: Pin/Future erasure (N25: a future's readiness in a round is a fixed ghost fact); Vec of pointer-sized elements holds <= isize::MAX entries; NOT decided: the select_biased! loop, the bound across closures and streaming transitions (swap_remove reordering)"),
 "C19": dict(cat="proof", ref="5 C19", tech=TECH + "; cancel-point assertion for the abandoned-send clause",
   text="the two transport adapters of zlink-tokio and zlink-smol: ReadHalf::read is a pass-through of the runtime read; WriteHalf::write hands the runtime exactly buf, in order, nothing else (loop invariant sent = buf[..pos], termination given n >= 1), a prefix on error. Listeners built from an inherited descriptor register a non-blocking descriptor (both crates); Connection::new takes its id from one atomic fetch_add and gives both halves the same id. The abandoned-send clause is a cancel-point obligation in the write loop; it FAILS in both crates and is reported as two KNOWN-FINDINGs (reproduced on real sockets by replay_rt)",
   note="assumed: kernel FIFO and runtime write/read contracts (trusted leaves); composition with C01/C02 on paper; async-io / tokio constructor preconditions assumed from their docs; uniqueness of fetch_add results assumed (hardware atomicity, wrap after 2^64); bind and bidirectional concurrency not decided"),
 "C09": dict(cat="proof", ref="12 C08 / C09", tech=TECH + " (N11 fragments of Server::run)",
   text="PER-ITERATION containment only: in the statements Server::run executes after a call was read, a read failure, an undecodable call or a failed reply write removes exactly the calling connection; every other connection keeps its index and state; none of these statements propagates an error out of the loop; after a stream item a failed write drops only that subscription",
   note="NOT decided: the property's quantifier (all interleavings of faulty and healthy connections) - the select_biased! loop, its awaits and the unsafe reborrow are outside the contracts; accept failures end the server by design; a search harness with injected faults (garbage, truncated frames, EOF mid-burst, failing writes, streams) is used to find witnesses, not to decide"),
 "C10": dict(cat="proof", ref="12 C08 / C10", tech=TECH + " (N11 fragments of Server::run)",
   text="PER-ITERATION facts only: a Multi answer parks exactly the calling connection with its stream; every stream item is handed untouched (flags included) to that connection's writer; at stream end exactly that connection returns to the call list; a failed item write drops only that subscription; other streams and connections are untouched",
   note="NOT decided: service of other clients while a stream is open and all interleavings (the select_biased! loop); 'pipelined calls behind the streaming call answered in order' is C01 + these steps on paper"),
 "C13": dict(cat="proof", ref="5 C13", tech=TECH,
   text="hand-written part of the parser, for ALL byte strings: the scanners ws (skips exactly the grammar's `_` production), whitespace_only, bytes_to_str, field_name, type_name, interface_name and the look-ahead of inline_type never index out of bounds, never unwrap an Err, terminate, consume exactly the returned token, fail only when no legal token starts the input, and the token is maximal and in its Varlink class; the field loops of type_def and parameter_list terminate and drop no parsed name; method_def / error_def only consume; parse_from_str accepts only when nothing but whitespace/comments remains",
   note="NOT decided: everything built from winnow combinators (alt, separated): the type grammar, interface_def's member loop, comment_def, source order; winnow leaves (multispace0, literal, take_while), from_utf8, position/contains and the IDL node constructors are assumed stubs; underscore placement in field names is a known finding"),
 "C20": dict(cat="proof", ref="12 C20", tech=TECH + " (the zlink code around the runtime channels; channel semantics assumed)",
   text="ADAPTER AND STATE CODE ONLY, for both runtime crates: poll_next of the notified Stream - a subscription item is delivered tagged continues=true with exactly the channel's value, lag notices are skipped and never end the subscription (unbounded loop, by invariant over the ghost poll trace), it ends only when the channel reports closed; a one-shot reply is tagged continues=false, afterwards the stream is over and the channel is not polled again; State::new builds a capacity-1 (smol: overflow on, await_active off) channel and keeps it open; State::set stores the value and hands exactly it to that channel, in call order, and cannot panic whether or not anyone is subscribed; stream() subscribes to that same channel; Once::new pairs sender and stream on one channel",
   note="NOT decided: the property's quantifier (interleavings of writers and lagging readers) - the semantics of tokio broadcast / BroadcastStream / oneshot and async_broadcast / async_channel are assumed as ghost-state stubs; 'eventually the most recent value' and 'tokio and smol identical' follow on paper; an exhaustive schedule search (<= 6 operations, <= 3 subscribers, real crates and channels) cross-checks and finds witnesses, bounded and not counted as proved"),
 "C17": dict(cat="proof", ref="5 C17", tech=TECH,
   text="inbound and outbound buffer length <= MAX_BUFFER_SIZE on every exit; BufferOverflow only when the undelivered / pending bytes reach the limit; refused outbound message leaves pending bytes and log unchanged; proved for the production constants",
   note="assumed: vstd Vec specs, to_slice contract; serde_json heap use and Vec capacity not covered"),
}
NA = {
 "C04": "classification is decided inside serde-derive untagged expansion + serde_json content buffering; no function of /repo holds that logic and neither Verus nor CBMC can ingest it",
 "C05": "envelope shapes are decided by serde-derive output and serde_json; the hand-written Call (de)serialisers are generic over external serde traits whose every contract would be assumed",
 "C11": "aliasing violation behind an unsafe lifetime-extending reborrow; Verus has no model of raw-pointer reborrows; a memory-model run would be a different technique family",
 "C12": "subject is the token stream emitted by a proc-macro for every trait shape; code behind macros",
 "C14": "Display impls go through core::fmt and the parser through winnow combinators; neither is within Verus's language nor CBMC's reach for unbounded texts",
 "C15": "compilation and wire behaviour of code produced by codegen -> proc-macros -> serde; per-program property over generated code",
 "C16": "derive-macro output and macro-generated const TYPE impls; equality of compile-time constants per program",
 "C20": "semantics of tokio broadcast / async-broadcast channels under task interleavings; Kani has no threads, Verus would need permission types for code we do not own",
}
EXTRA = os.path.join(HERE, "tools", "manifest_extra.json")
if os.path.exists(EXTRA):
    x = json.load(open(EXTRA))
    CLAIMED.update(x.get("claimed", {}))
    for k in x.get("claimed", {}):
        NA.pop(k, None)
    NA.update(x.get("na", {}))
for k in CLAIMED:
    NA.pop(k, None)
m = {
 "version": 1,
 "setup_cmd": "python3 tools/setup.py",
 "hooks": {"guard": "zlink_verif",
  "enable": "none needed: Verus reads source text extracted from /repo on every run; Kani and the replay crate reach private items through #[path] / the public API",
  "baseline_off_cmd": "cd /repo && (cargo nextest run --workspace --no-fail-fast --tool-config-file pb:/w/lib/nextest.toml --profile pb --test-threads 8 --offline || cargo test --workspace --no-fail-fast --offline)",
  "source_commits": [], "add_only": True},
 "engines": [
  {"name": "verus-extract", "path": "check.py", "serves_properties": sorted(CLAIMED),
   "kind_free_text": "contract-based deductive verification: real functions extracted mechanically from /repo on every run (tools/extract.py), contracts injected from contracts/*.vrs, discharged by Verus 0.2026.09.13 / Z3; Kani 0.68 / CBMC for loop-free or width-bounded complete harnesses and bounded stand-ins; replay crate confirms violations on the real code"}],
 "checks": [
  {"property_id": p, "quick_cmd": f"python3 check.py {p} --tier quick", "thorough_cmd": f"python3 check.py {p} --tier thorough",
   "evidence_file": f"/verif/evidence/{p}.json", "replay_cmd_template": "python3 check.py replay {path}", "engine": "verus-extract",
   "level_claimed": {"category": c["cat"], "text": c["text"], "design_ref": c["ref"]}, "level_note": c["note"], "technique": c["tech"]}
  for p, c in sorted(CLAIMED.items())],
 "not_applicable": [{"property_id": p, "reason": r} for p, r in sorted(NA.items())],
 "notes": "see DESIGN.md; exit 2 of a check means UNDECIDED (extraction lost an item, resource limit, vacuity guard) and is never a violation",
}
json.dump(m, open(os.path.join(HERE, "MANIFEST.json"), "w"), indent=1)
print("MANIFEST.json:", len(m["checks"]), "checks,", len(m["not_applicable"]), "not applicable")
