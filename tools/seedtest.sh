#!/bin/bash
# seedtest.sh <patch.diff> <prop> [<prop>...] : apply a seeded change to /repo, run the checks, undo it.
set -u
patch="$1"; shift
cd /repo || exit 9
git diff --quiet || { echo "/repo not clean"; exit 9; }
git apply "$patch" || { echo "patch does not apply"; exit 9; }
for p in "$@"; do
  ( cd /verif && python3 check.py "$p" 2>&1 | tail -4; echo "   -> rc=${PIPESTATUS[0]} for $p" )
done
git -C /repo checkout -- . 
git -C /repo status --short | head -3
