"""Teeth test (thorough tier): single-token mutations applied to the GENERATED text only (never to /repo),
restricted to lines that come from repository source inside non-trusted extracted functions.  Every mutant
must be rejected by Verus (an obligation fails, or it no longer compiles); survivors are reported in the
evidence as candidates for contract weaknesses (or equivalent mutants)."""
import os
import random
import re
import sys
from concurrent.futures import ThreadPoolExecutor

sys.path.insert(0, os.path.dirname(__file__))
import verus_run  # noqa: E402

OPS = [
    (r"\+ 1\b", ""), (r"- 1\b", ""), (r"\+= 1\b", "+= 2"), (r">=", ">"), (r"<=", "<"), (r"(?<![<>=!])==(?!=)", "!="), (r"!=", "=="),
    (r"(?<![<\-=])>(?![>=])", ">="), (r"(?<![<])<(?![<=])", "<="), (r"&&", "||"), (r"\|\|", "&&"), (r"\btrue\b", "false"), (r"\bfalse\b", "true"),
    (r"\b0\b", "1"), (r"State::First", "State::Rest"), (r"State::Rest", "State::First"), (r"State::Empty", "State::First"),
    (r"\bbreak;", "continue;"), (r"!(?=[a-z(])", ""), (r"Some\(false\)", "Some(true)"), (r"\+ len\b", ""), (r"\bpos\b(?= \+)", "0"),
]


def candidates(rs_path, meta):
    lines = open(rs_path).read().split("\n")
    lm = meta["linemap"]
    ranges = [(it["gen_lines"][0], it["gen_lines"][1], it) for it in meta["items"] if it["kind"] == "fn" and not it["trusted"]]
    out = []
    for a, b, it in ranges:
        # skip the signature: start after the first line that contains the body's opening brace alone
        for ln in range(a, b + 1):
            info = lm[ln - 1] if ln - 1 < len(lm) else {}
            if info.get("k") != "src":
                continue
            text = lines[ln - 1]
            if re.match(r"\s*(pub\s+)?(async\s+)?fn\b", text) or text.strip().startswith("//") or "where" == text.strip():
                continue
            code = text.split("//")[0]
            for (pat, rep) in OPS:
                for m in re.finditer(pat, code):
                    mutated = code[:m.start()] + rep + code[m.end():] + text[len(code):]
                    if mutated != text:
                        out.append({"line": ln, "item": it["id"], "repo": f"{info.get('file')}:{info.get('line')}",
                                    "before": text.strip()[:120], "after": mutated.strip()[:120], "text": mutated})
    return out


def run(rs_path, meta, seed, limit, workdir, jobs=8, baseline_diags=()):
    cands = candidates(rs_path, meta)
    rnd = random.Random(seed)
    rnd.shuffle(cands)
    cands = cands[:limit]
    src_lines = open(rs_path).read().split("\n")
    os.makedirs(workdir, exist_ok=True)
    # failures that the unmutated file already has (known findings) do not count as rejecting a mutant
    base = {(d["message"], tuple(sorted(sp["line_start"] for sp in d["spans"] if sp.get("primary")))) for d in baseline_diags}

    def one(i_c):
        i, c = i_c
        ls = list(src_lines)
        ls[c["line"] - 1] = c["text"]
        p = os.path.join(workdir, f"mutant_{i}.rs")
        open(p, "w").write("\n".join(ls))
        r = verus_run.run(p, threads=2, multiple_errors=12)
        os.remove(p)
        new = [d for d in r["diagnostics"] if (d["message"], tuple(sorted(sp["line_start"] for sp in d["spans"] if sp.get("primary")))) not in base]
        killed = (not r["json_ok"]) or any(d["class"] != "undecided" for d in new)
        how = "obligation" if any(d["class"] == "obligation" for d in new) else ("compile" if killed else "survived")
        return dict(c, killed=killed, how=how)
    with ThreadPoolExecutor(max_workers=jobs) as ex:
        res = list(ex.map(one, enumerate(cands)))
    for r in res:
        r.pop("text", None)
    return {"mutants": len(res), "rejected": sum(r["killed"] for r in res),
            "rejected_by_obligation": sum(r["how"] == "obligation" for r in res),
            "survivors": [r for r in res if not r["killed"]], "sample_rejected": [r for r in res if r["killed"]][:5]}
