#!/bin/bash
# battery_snapshot.sh [ids...] : `vp run --with-repo -- tools/battery_snapshot.sh`: the seed battery on snapshots (see snapshot_env.sh)
exec tools/snapshot_env.sh tools/seedbattery.sh "$@"
