#!/bin/bash
# battery_snapshot.sh [ids...] : for `vp run --with-repo -- tools/battery_snapshot.sh`: the seed battery on the snapshots of /verif
# (the working directory) and /repo ($VP_RUN_REPO), leaving /repo itself alone.
set -u
V=$(pwd); R=${VP_RUN_REPO:?needs vp run --with-repo}
sed -i "s#/repo/#$R/#g" replay/Cargo.toml replay_rt/Cargo.toml kani/select_all/src/lib.rs
sed -i "s#/verif/build/#$V/build/#g" replay/.cargo/config.toml replay_rt/.cargo/config.toml kani/select_all/.cargo/config.toml 2>/dev/null
grep -rl '"/repo' replay/src replay_rt/src 2>/dev/null | xargs -r sed -i "s#\"/repo/#\"$R/#g"
[ -f $R/Cargo.lock ] || cp /repo/Cargo.lock $R/
REPO=$R VERIF=$V tools/seedbattery.sh "$@"
