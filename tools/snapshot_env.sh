#!/bin/bash
# snapshot_env.sh <command...> : for `vp run --with-repo -- tools/snapshot_env.sh <command>`: runs <command> in the snapshot of /verif
# (the working directory) against the snapshot of /repo ($VP_RUN_REPO), leaving /repo and /verif/build alone.  The replay crates
# and the Kani crate name the repository and their target directories by absolute path; those are rewritten first.
set -u
V=$(pwd); R=${VP_RUN_REPO:?needs vp run --with-repo}
sed -i "s#/repo/#$R/#g" replay/Cargo.toml replay_rt/Cargo.toml kani/select_all/src/lib.rs
sed -i "s#/verif/build/#$V/build/#g" replay/.cargo/config.toml replay_rt/.cargo/config.toml kani/select_all/.cargo/config.toml 2>/dev/null
grep -rl '"/repo' replay/src replay_rt/src 2>/dev/null | xargs -r sed -i "s#\"/repo/#\"$R/#g"
[ -f $R/Cargo.lock ] || cp /repo/Cargo.lock $R/
export REPO=$R VERIF=$V VERIF_REPO=$R
exec "$@"
