#!/bin/bash
# unit.sh <unit> [verus args..] : extract one unit from /repo's working tree and run verus on it, errors in short form (development aid)
u="$1"; shift
cd /verif; mkdir -p build
python3 tools/extract.py ${DEVREPO:-/repo} contracts/$u.vrs build/dev_$u.rs || exit 2
verus build/dev_$u.rs --multiple-errors 20 --num-threads 12 "$@" 2>&1 | grep -E "^(error|warning: unused)|-->|verification results|^\s+\|\s|^[0-9 ]+\|" | grep -v "^warning" | head -${LINES_MAX:-80}
