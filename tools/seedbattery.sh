#!/bin/bash
# seedbattery.sh [ids...] : run every seed under seeded/ against the property it breaks; one line per seed.
# REPO / VERIF (default /repo, /verif) let the battery run on snapshots (vp run --with-repo): the replay crates and the Kani
# crate name the repository by absolute path, so in a snapshot those paths are rewritten first (see tools/battery_snapshot.sh).
REPO=${REPO:-/repo}; VERIF=${VERIF:-/verif}
export VERIF_REPO=$REPO
cd $VERIF
ids="$@"; [ -z "$ids" ] && ids=$(ls seeded)
for id in $ids; do
  prop=$(python3 -c "import json;print(json.load(open('seeded/$id/meta.json'))['breaks_property'].split()[0])")
  if [ "$id" = "C13f" ]; then (cd $REPO && git checkout -q 07b6150 -- zlink-core/src/idl/parse/mod.rs); fi
  if ! git -C $REPO apply $VERIF/seeded/$id/patch.diff 2>/dev/null; then echo "$id $prop PATCH-DOES-NOT-APPLY"; git -C $REPO checkout -q HEAD -- .; continue; fi
  out=$(python3 check.py $prop 2>&1); rc=$?
  line=$(echo "$out" | grep -E "^VIOLATION|^UNDECIDED|^OK" | head -1 | cut -c1-150)
  ob=$(echo "$out" | grep -E "^failed obligation" | head -1 | sed -E 's/failed obligation ([^ ]+).*/\1/')
  echo "$id $prop rc=$rc $ob | $line"
  git -C $REPO checkout -q HEAD -- . ; git -C $REPO reset -q
done
