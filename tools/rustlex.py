"""Minimal Rust lexer: enough to find items by brace matching and to rewrite token
sequences. Tokens keep their exact source text and line number; comments and whitespace
are separate token kinds so that the source can be reproduced byte for byte."""
import re
from dataclasses import dataclass


@dataclass
class Tok:
    kind: str   # ws, lcomment, bcomment, str, char, lifetime, ident, num, punct
    text: str
    line: int   # 1-based line of first char
    pos: int    # byte offset

    def __repr__(self):
        return f"{self.kind}:{self.text!r}@{self.line}"


_ident = re.compile(r"(?:r#)?[A-Za-z_][A-Za-z0-9_]*")
_num = re.compile(r"[0-9][0-9A-Za-z_]*(?:\.[0-9][0-9A-Za-z_]*)?")
_ws = re.compile(r"\s+")
# multi-char puncts that matter for us; everything else single char
_PUNCTS = ["<<=", ">>=", "...", "..=", "::", "->", "=>", "==", "!=", "<=", ">=", "&&", "||",
           "+=", "-=", "*=", "/=", "%=", "^=", "&=", "|=", "<<", ">>", ".."]


class LexError(Exception):
    pass


def lex(src: str):
    toks = []
    i, n, line = 0, len(src), 1

    def push(kind, j):
        nonlocal i, line
        t = src[i:j]
        toks.append(Tok(kind, t, line, i))
        line += t.count("\n")
        i = j

    while i < n:
        c = src[i]
        m = _ws.match(src, i)
        if m:
            push("ws", m.end())
            continue
        if src.startswith("//", i):
            j = src.find("\n", i)
            push("lcomment", n if j < 0 else j)
            continue
        if src.startswith("/*", i):
            depth, j = 1, i + 2
            while depth and j < n:
                if src.startswith("/*", j):
                    depth += 1
                    j += 2
                elif src.startswith("*/", j):
                    depth -= 1
                    j += 2
                else:
                    j += 1
            push("bcomment", j)
            continue
        # raw strings r"..", r#".."#, br".."
        m = re.match(r"b?r(#*)\"", src[i:i + 40])
        if m:
            hashes = m.group(1)
            end = src.find('"' + hashes, i + m.end())
            if end < 0:
                raise LexError(f"unterminated raw string at line {line}")
            push("str", end + 1 + len(hashes))
            continue
        if c == '"' or (c == "b" and src.startswith('b"', i)):
            j = i + (2 if c == "b" else 1)
            while j < n and src[j] != '"':
                j += 2 if src[j] == "\\" else 1
            push("str", j + 1)
            continue
        if c == "'" or (c == "b" and src.startswith("b'", i)):
            k = i + (1 if c == "b" else 0)
            # char literal or lifetime
            m = re.match(r"'(?:\\(?:x[0-9a-fA-F]{2}|u\{[0-9a-fA-F_]+\}|.)|[^\\'])'", src[k:k + 16])
            if m:
                push("char", k + m.end())
                continue
            m = re.match(r"'[A-Za-z_][A-Za-z0-9_]*", src[k:k + 64])
            if m and c == "'":
                push("lifetime", k + m.end())
                continue
            raise LexError(f"bad quote at line {line}")
        m = _ident.match(src, i)
        if m:
            push("ident", m.end())
            continue
        m = _num.match(src, i)
        if m:
            # avoid eating `0..n` as float
            t = m.group(0)
            if "." in t and src.startswith("..", i + t.index(".")):
                push("num", i + t.index("."))
            else:
                push("num", m.end())
            continue
        for p in _PUNCTS:
            if src.startswith(p, i):
                push("punct", i + len(p))
                break
        else:
            push("punct", i + 1)
    return toks


def code(toks):
    """Significant tokens only (no whitespace, no comments)."""
    return [t for t in toks if t.kind not in ("ws", "lcomment", "bcomment")]


OPEN = {"(": ")", "[": "]", "{": "}"}
CLOSE = {v: k for k, v in OPEN.items()}


def match_close(ct, i):
    """ct: code tokens; ct[i] is an opener; return index of its closer."""
    assert ct[i].text in OPEN, ct[i]
    depth = 0
    for j in range(i, len(ct)):
        t = ct[j].text
        if ct[j].kind == "punct":
            if t in OPEN:
                depth += 1
            elif t in CLOSE:
                depth -= 1
                if depth == 0:
                    return j
    raise LexError(f"unbalanced from line {ct[i].line}")


def split_generic_shifts(ct):
    """`>>` inside generics is lexed as one token; we never need to balance `<`/`>` so
    nothing to do — kept for documentation."""
    return ct


def texts(ct):
    return [t.text for t in ct]
