#!/usr/bin/env python3
"""setup: build what can be built ahead of time, offline (replay crate); warm Verus."""
import os, subprocess, sys
here = os.path.dirname(os.path.dirname(os.path.abspath(__file__)))
os.makedirs(os.path.join(here, "build"), exist_ok=True)
env = dict(os.environ, CARGO_NET_OFFLINE="true")
r = subprocess.run(["cargo", "build", "--offline", "--quiet"], cwd=os.path.join(here, "replay"), env=env)
print("replay crate build:", "ok" if r.returncode == 0 else "FAILED (witness search will be unavailable)")
r = subprocess.run(["cargo", "build", "--offline", "--quiet"], cwd=os.path.join(here, "replay_rt"), env=env)
print("replay_rt crate build:", "ok" if r.returncode == 0 else "FAILED (the real-socket / schedule harnesses will be unavailable)")
r = subprocess.run(["verus", "--version"], capture_output=True, text=True)
print(r.stdout.strip() or r.stderr.strip())
sys.exit(0)
