"""Mechanical extraction of real items from /repo into a single Verus file.

A *template* (contracts/<unit>.vrs) is an ordinary Verus source file with `//@` directive
lines.  Everything that is not a directive is copied verbatim (prelude, spec functions,
lemmas, stubs).  Directives pull items out of the repository's *current working tree*,
normalise them with the closed rule list of DESIGN.md section 3.2 and inject contract clauses.

Directives
    //@impl file=F path="impl X"            emit the impl header taken from the source
    //@endimpl                               emit the closing brace
    //@extract id=ID file=F path="impl X/fn f" [tags=C01,C07] [opts]
        //@ rewrite RULE "pattern" => "replacement" [count=N|*|?]
        //@ spec                             lines until next directive go between signature and body
        //@ loop K                           lines go after the header of the K-th loop
        //@ at fn.start | loopK.start | loopK.end
        //@ before "anchor" | after "anchor" (anchor must match exactly once)
        //@ cancel                           expression asserted at every removed `.await`
        //@ trusted                          body replaced by external_body (signature is real)
        //@ keepderive A,B                   keep/add these derives (N14)
    //@end
    //@include path                          splice another file (shared clause texts)

Inside injected lines a trailing `//# ID [tags=..]` names the clause (the id applies to
that line and following unmarked lines of the same block).

Exit codes of callers: any ExtractError => UNDECIDED (exit 2), never a violation.
"""
import hashlib
import json
import os
import re
import shlex
import sys
from dataclasses import dataclass, field

sys.path.insert(0, os.path.dirname(__file__))
from rustlex import lex, code, match_close, Tok, OPEN, CLOSE, LexError  # noqa: E402


class ExtractError(Exception):
    pass


class LostAid(ExtractError):
    """a proof aid (loop invariant block, hint anchor) has no place in the current source any more"""


LOG_MACROS = {"trace", "debug", "info", "warn", "error"}


# ----------------------------------------------------------------------------------------
# locating items
# ----------------------------------------------------------------------------------------

def _code_index(toks):
    """indices into toks of significant tokens"""
    return [i for i, t in enumerate(toks) if t.kind not in ("ws", "lcomment", "bcomment")]


def _find_block_open(toks, ci, k):
    """from code position k find next `{` at paren depth 0 (skipping (), [])"""
    depth = 0
    while k < len(ci):
        t = toks[ci[k]]
        if t.kind == "punct":
            if t.text in "([":
                depth += 1
            elif t.text in ")]":
                depth -= 1
            elif t.text == "{" and depth == 0:
                return k
            elif t.text == ";" and depth == 0:
                return None
        k += 1
    return None


def _match(toks, ci, k):
    """ci[k] is opener; return code position of closer"""
    depth = 0
    for j in range(k, len(ci)):
        t = toks[ci[j]]
        if t.kind == "punct":
            if t.text in OPEN:
                depth += 1
            elif t.text in CLOSE:
                depth -= 1
                if depth == 0:
                    return j
    raise ExtractError(f"unbalanced braces from line {toks[ci[k]].line}")


ITEM_KW = {"fn", "struct", "enum", "static", "const", "type", "trait", "mod", "impl", "macro_rules", "union"}
MODIFIERS = {"pub", "async", "const", "unsafe", "extern", "default"}


def _items_in(toks, ci, lo, hi):
    """Yield (kind, name, start_cp, end_cp, hdr_info) for items between code positions
    [lo, hi) at nesting depth 0.  start_cp includes modifiers and attributes."""
    k = lo
    while k < hi:
        t = toks[ci[k]]
        # attributes
        start = k
        while toks[ci[k]].text == "#" and k + 1 < hi and toks[ci[k + 1]].text in ("[", "!"):
            j = k + 1
            if toks[ci[j]].text == "!":
                j += 1
            k = _match(toks, ci, j) + 1
            if k >= hi:
                return
        # modifiers
        while k < hi and toks[ci[k]].kind == "ident" and toks[ci[k]].text in MODIFIERS:
            if toks[ci[k]].text == "const" and k + 1 < hi and toks[ci[k + 1]].text != "fn" and toks[ci[k + 1]].text not in MODIFIERS:
                break  # `const NAME: ..`
            k += 1
            if k < hi and toks[ci[k]].text == "(" and toks[ci[k - 1]].text == "pub":
                k = _match(toks, ci, k) + 1
            if k < hi and toks[ci[k]].kind == "str" and toks[ci[k - 1]].text == "extern":
                k += 1
        if k >= hi:
            return
        t = toks[ci[k]]
        kw = t.text if t.kind == "ident" else None
        if kw == "macro_rules":
            name = toks[ci[k + 2]].text
            ob = _find_block_open(toks, ci, k)
            # macro_rules! name { .. } or ( .. );
            j = k + 3
            end = _match(toks, ci, j)
            if end + 1 < hi and toks[ci[end + 1]].text == ";":
                end += 1
            yield ("macro_rules", name, start, end + 1, None)
            k = end + 1
            continue
        if kw in ("fn", "struct", "enum", "static", "const", "type", "trait", "mod", "union"):
            nk = k + 1
            if kw == "static" and toks[ci[nk]].text == "mut":
                nk += 1
            name = toks[ci[nk]].text
            # find end: `;` or `{..}` at depth 0
            j = nk
            depth = 0
            end = None
            while j < hi:
                tt = toks[ci[j]]
                if tt.kind == "punct":
                    if tt.text in "([":
                        depth += 1
                    elif tt.text in ")]":
                        depth -= 1
                    elif depth == 0 and tt.text == ";":
                        end = j
                        break
                    elif depth == 0 and tt.text == "{":
                        end = _match(toks, ci, j)
                        # `struct X {..}` / fn / enum end here; static/const continue to `;`
                        if kw in ("static", "const", "type"):
                            j = end + 1
                            continue
                        break
                j += 1
            if end is None:
                raise ExtractError(f"cannot find end of item {kw} {name} at line {t.line}")
            yield (kw, name, start, end + 1, None)
            k = end + 1
            continue
        if kw == "impl":
            ob = _find_block_open(toks, ci, k)
            if ob is None:
                raise ExtractError(f"impl without body at line {t.line}")
            end = _match(toks, ci, ob)
            hdr = [toks[ci[x]] for x in range(k, ob)]
            # trait impl?  find `for` at angle depth 0
            ad = 0
            for_at = None
            for x, h in enumerate(hdr):
                if h.text == "<":
                    ad += 1
                elif h.text == ">":
                    ad -= 1
                elif h.text == ">>":
                    ad -= 2
                elif h.text == "where" and ad == 0:
                    break
                elif h.text == "for" and ad == 0 and h.kind == "ident":
                    # `for<'a>` HRTB inside bounds has ad>0 or follows `:`/`+`; top-level `for` after a path
                    if x + 1 < len(hdr) and hdr[x + 1].text == "<":
                        continue
                    for_at = x
                    break

            def first_path_ident(seq):
                # skip leading generics `<..>` and `&`, `mut`, lifetimes
                ad2 = 0
                last = None
                for h in seq:
                    if h.text == "<":
                        ad2 += 1
                        if last is not None:
                            return last
                    elif h.text == ">":
                        ad2 -= 1
                    elif h.text == ">>":
                        ad2 -= 2
                    elif ad2 == 0 and h.kind == "ident" and h.text not in ("impl", "mut", "dyn", "where", "for"):
                        last = h.text
                    elif ad2 == 0 and h.text == "where":
                        break
                    elif ad2 == 0 and h.text == "::":
                        continue
                return last

            if for_at is not None:
                trait = first_path_ident(hdr[1:for_at])
                ty = first_path_ident(hdr[for_at + 1:])
                name = f"{trait} for {ty}"
            else:
                name = first_path_ident(hdr[1:])
            yield ("impl", name, start, end + 1, (k, ob, end))
            k = end + 1
            continue
        if t.kind == "ident" and k + 2 < hi and toks[ci[k + 1]].text == "!" and toks[ci[k + 2]].text in OPEN and kw != "macro_rules":
            end = _match(toks, ci, k + 2)
            e2 = end
            if e2 + 1 < hi and toks[ci[e2 + 1]].text == ";":
                e2 += 1
            yield ("macro", t.text, start, e2 + 1, (k, k + 2, end))
            k = e2 + 1
            continue
        if kw == "use" or (t.kind == "ident" and kw in ("extern",)):
            # skip to `;`
            while k < hi and toks[ci[k]].text != ";":
                if toks[ci[k]].text in OPEN:
                    k = _match(toks, ci, k)
                k += 1
            k += 1
            continue
        # anything else (macro invocation etc.): skip one token / balanced group
        if t.text in OPEN:
            k = _match(toks, ci, k) + 1
        else:
            k += 1


def locate(toks, path):
    """path like 'impl ReadConnection/fn read_from_socket' or 'mod x/static ESCAPE' or
    'impl Write for ByteSliceWriter#2/fn f'.  Returns dict with code positions."""
    ci = _code_index(toks)
    lo, hi = 0, len(ci)
    found = None
    parts = [p.strip() for p in path.split("/")]
    for depth_i, part in enumerate(parts):
        nth = 1
        m = re.match(r"(.*)#(\d+)$", part)
        if m:
            part, nth = m.group(1).strip(), int(m.group(2))
        kind, _, name = part.partition(" ")
        name = name.strip()
        if kind.startswith("**"):
            # nested item statement anywhere below (N15 hoist): `const NAME ... ;` / `static NAME ... ;`
            kw = kind[2:]
            hits = [k for k in range(lo, hi - 1) if toks[ci[k]].text == kw and toks[ci[k + 1]].text == name]
            if len(hits) != 1:
                raise ExtractError(f"nested item {part!r} found {len(hits)} times (of {path!r})")
            k = hits[0]
            d = 0
            e = k
            while e < hi:
                t = toks[ci[e]]
                if t.kind == "punct" and t.text in OPEN:
                    d += 1
                elif t.kind == "punct" and t.text in CLOSE:
                    d -= 1
                    if d == 0 and t.text == "}" and kw in ("enum", "struct"):
                        break
                elif t.text == ";" and d == 0:
                    break
                e += 1
            # include attributes directly in front of the nested item (they are dropped by N3)
            st = k
            while st - 1 >= lo and toks[ci[st - 1]].text == "]":
                j = st - 1
                dd = 0
                while j >= lo:
                    if toks[ci[j]].text == "]":
                        dd += 1
                    elif toks[ci[j]].text == "[":
                        dd -= 1
                        if dd == 0:
                            break
                    j -= 1
                if j - 1 >= lo and toks[ci[j - 1]].text == "#":
                    st = j - 1
                else:
                    break
            return {"kind": kw, "name": name, "start": st, "end": e + 1, "impl": None, "ci": ci}
        cands = [it for it in _items_in(toks, ci, lo, hi) if it[0] == kind and it[1] == name]
        if len(cands) < nth:
            raise ExtractError(f"item not found: {part!r} (of {path!r})")
        if not m and len(cands) > 1 and depth_i == len(parts) - 1:
            raise ExtractError(f"item ambiguous: {part!r} matches {len(cands)} times (of {path!r})")
        # for non-final segments with several candidates (e.g. several `impl X` blocks) pick the one containing the rest
        if depth_i < len(parts) - 1 and not m and len(cands) > 1:
            rest = "/".join(parts[depth_i + 1:])
            ok = []
            for c in cands:
                k, ob, end = c[4] if c[4] else (None, _find_block_open(toks, ci, c[2]), c[3] - 1)
                try:
                    sub = _locate_in(toks, ci, ob + 1, end, rest)
                    ok.append(sub)
                except ExtractError:
                    pass
            if len(ok) != 1:
                raise ExtractError(f"{path!r}: {len(ok)} candidates contain the item")
            return ok[0]
        found = cands[nth - 1]
        if depth_i < len(parts) - 1:
            if found[0] in ("impl", "macro"):
                k, ob, end = found[4]
            else:
                ob = _find_block_open(toks, ci, found[2])
                end = _match(toks, ci, ob)
            lo, hi = ob + 1, end
    return {"kind": found[0], "name": found[1], "start": found[2], "end": found[3], "impl": found[4], "ci": ci}


def _locate_in(toks, ci, lo, hi, path):
    parts = [p.strip() for p in path.split("/")]
    found = None
    for depth_i, part in enumerate(parts):
        kind, _, name = part.partition(" ")
        cands = [it for it in _items_in(toks, ci, lo, hi) if it[0] == kind and it[1] == name.strip()]
        if len(cands) != 1:
            raise ExtractError("nf")
        found = cands[0]
        if depth_i < len(parts) - 1:
            ob = _find_block_open(toks, ci, found[2])
            end = _match(toks, ci, ob)
            lo, hi = ob + 1, end
    return {"kind": found[0], "name": found[1], "start": found[2], "end": found[3], "impl": found[4], "ci": ci}


# ----------------------------------------------------------------------------------------
# pieces: the generated item is a list of pieces
# ----------------------------------------------------------------------------------------

@dataclass
class Piece:
    text: str
    kind: str            # 'src' (verbatim token), 'rw' (rewritten by rule), 'inj' (injected)
    line: int = 0        # source line for src/rw
    rule: str = ""       # rule id for rw
    clause: str = ""     # clause id for inj
    tags: tuple = ()
    tkind: str = ""      # token kind for src
    dead: bool = False   # removed by a rule
    mark: str = ""       # 'await': the (dead) `.` of a removed `.await` — cancel points are located by this mark, not by index


def pieces_from(toks, a, b):
    return [Piece(t.text, "src", t.line, tkind=t.kind) for t in toks[a:b]]


def sig(pieces):
    """indices of live significant source/rw pieces"""
    return [i for i, p in enumerate(pieces)
            if not p.dead and p.kind in ("src", "rw") and p.tkind not in ("ws", "lcomment", "bcomment")]


def _pmatch(pieces, si, k, open_idx):
    depth = 0
    for j in range(k, len(si)):
        t = pieces[si[j]].text
        if pieces[si[j]].tkind == "punct":
            if t in OPEN:
                depth += 1
            elif t in CLOSE:
                depth -= 1
                if depth == 0:
                    return j
    raise ExtractError("unbalanced in item")


class Applied:
    def __init__(self):
        self.rules = []   # (rule, file, line, note)

    def add(self, rule, file, line, note=""):
        self.rules.append({"rule": rule, "file": file, "line": line, "note": note})


def kill(pieces, idxs):
    for i in idxs:
        pieces[i].dead = True


def n3_attrs_and_vis(pieces, file, applied, keepderive=None):
    """delete attributes and doc comments; pub(..) -> pub"""
    si = sig(pieces)
    k = 0
    while k < len(si):
        p = pieces[si[k]]
        if p.text == "#" and k + 1 < len(si) and pieces[si[k + 1]].text in ("[", "!"):
            j = k + 1
            if pieces[si[j]].text == "!":
                j += 1
            e = _pmatch(pieces, si, j, None)
            inner = "".join(pieces[x].text for x in range(si[j], si[e] + 1))
            kill(pieces, range(si[k], si[e] + 1))
            applied.add("N3", file, p.line, "attribute " + re.sub(r"\s+", " ", inner)[:60])
            k = e + 1
            continue
        if p.text == "pub" and k + 1 < len(si) and pieces[si[k + 1]].text == "(":
            e = _pmatch(pieces, si, k + 1, None)
            kill(pieces, range(si[k + 1], si[e] + 1))
            applied.add("N3", file, p.line, "pub(..) -> pub")
            k = e + 1
            continue
        k += 1
    for p in pieces:
        if not p.dead and p.kind == "src" and p.tkind == "lcomment" and (p.text.startswith("///") or p.text.startswith("//!")):
            p.dead = True
    if keepderive:
        pieces.insert(0, Piece(f"#[derive({', '.join(keepderive)})]\n", "rw", pieces[0].line if pieces else 0, rule="N14", tkind="attr"))
        applied.add("N14", file, pieces[1].line if len(pieces) > 1 else 0, "derive " + ",".join(keepderive))


def n3_pubfields(pieces, file, applied):
    """struct fields without visibility get `pub` (single-file build: contracts may only mention public fields)"""
    si = sig(pieces)
    ob = next((k for k, i in enumerate(si) if pieces[i].text == "{"), None)
    if ob is None:
        raise ExtractError("pubfields: not a braced struct")
    cb = _pmatch(pieces, si, ob, None)
    depth = 0
    n = 0
    k = ob + 1
    starts = []
    at_start = True
    while k < cb:
        t = pieces[si[k]]
        if t.tkind == "punct" and t.text in OPEN:
            depth += 1
        elif t.tkind == "punct" and t.text in CLOSE:
            depth -= 1
        elif depth == 0 and t.text == ",":
            at_start = True
            k += 1
            continue
        elif depth == 0 and t.text == "<":
            pass
        if at_start and depth == 0 and t.tkind == "ident":
            if t.text != "pub" and k + 1 < cb and pieces[si[k + 1]].text == ":":
                starts.append(si[k])
            at_start = False
        k += 1
    for i in reversed(starts):
        ln = pieces[i].line
        pieces[i:i] = [Piece("pub", "rw", ln, rule="N3", tkind="ident"), Piece(" ", "rw", ln, rule="N3", tkind="ws")]
        n += 1
    applied.add("N3", file, pieces[0].line, f"{n} private field(s) made pub")


def _bstr_bytes(lit):
    """bytes of a Rust byte-string literal (supported escapes: backslash, quotes, n, r, t, 0, xNN)"""
    assert lit.startswith('b"') and lit.endswith('"')
    body = lit[2:-1]
    out = []
    i = 0
    BSL = chr(92)
    while i < len(body):
        c = body[i]
        if c == BSL:
            n = body[i + 1]
            if n == "x":
                out.append(int(body[i + 2:i + 4], 16))
                i += 4
                continue
            m = {"n": 10, "r": 13, "t": 9, "0": 0, BSL: 92, '"': 34, "'": 39}
            if n not in m:
                raise ExtractError(f"N19: unsupported escape {n!r} in {lit}")
            out.append(m[n])
            i += 2
            continue
        b = c.encode("utf-8")
        if len(b) != 1:
            raise ExtractError(f"N19: non-ASCII in byte string {lit}")
        out.append(b[0])
        i += 1
    return out


def n19_byte_strings(pieces, file, applied):
    """b"abc" -> &[0x61u8, 0x62u8, 0x63u8] (same type &'static [u8; N], same bytes; Verus gives
    byte-string literals no specification but knows array literals)"""
    n = 0
    idx = 0
    while idx < len(pieces):
        pc = pieces[idx]
        if not pc.dead and pc.tkind == "str" and pc.text.startswith('b"'):
            bs = _bstr_bytes(pc.text)
            rep = "&[" + ", ".join(f"0x{b:02x}u8" for b in bs) + "]"
            newp = [Piece(t.text, "rw", pc.line, rule="N19", tkind=t.kind) for t in lex(rep)]
            pieces[idx:idx + 1] = newp
            idx += len(newp)
            n += 1
            applied.add("N19", file, pc.line, f"{pc.text} -> array literal of the same {len(bs)} bytes")
        else:
            idx += 1
    return n


def n1_async(pieces, file, applied):
    """async fn -> fn ; `.await` removed; returns list of piece indices where an await was"""
    si = sig(pieces)
    awaits = []
    n1b_sites = []
    for k, i in enumerate(si):
        p = pieces[i]
        if p.text == "async" and p.tkind == "ident" and k + 1 < len(si) and pieces[si[k + 1]].text in ("fn", "move", "{", "|"):
            if pieces[si[k + 1]].text != "fn":
                raise ExtractError(f"{file}:{p.line}: async block/closure not supported by rule N1")
            p.dead = True
            # also the following whitespace
            if i + 1 < len(pieces) and pieces[i + 1].tkind == "ws":
                pieces[i + 1].dead = True
            applied.add("N1", file, p.line, "async fn -> fn")
        if p.text == "await" and p.tkind == "ident" and k > 0 and pieces[si[k - 1]].text == ".":
            # N1b: awaiting a bare local (`fut.await`: a future VALUE, not the call of an async fn) becomes the call of the
            # stub's `wait()` leaf; the template supplies the stub (e.g. the select-all round of Server::get_next_call)
            if k >= 2 and pieces[si[k - 2]].tkind == "ident" and (k < 3 or pieces[si[k - 3]].text not in (".", "::")) \
                    and pieces[si[k - 2]].text not in ("self",):
                n1b_sites.append(i)
                pieces[si[k - 1]].mark = "await"
                applied.add("N1b", file, p.line, f"{pieces[si[k - 2]].text}.await -> {pieces[si[k - 2]].text}.wait() (await of a future value: stub leaf; cancel point)")
                awaits.append(si[k - 1])
                continue
            pieces[si[k - 1]].dead = True
            p.dead = True
            # drop whitespace between the previous token and `.await` when it is only a line break + indent
            j = si[k - 1] - 1
            if j >= 0 and pieces[j].tkind == "ws" and "\n" in pieces[j].text:
                pieces[j].dead = True
            applied.add("N1", file, p.line, ".await removed (cancel point)")
            pieces[si[k - 1]].mark = "await"
            awaits.append(si[k - 1])
    for i in reversed(n1b_sites):
        ln = pieces[i].line
        pieces[i:i + 1] = [Piece(t.text, "rw", ln, rule="N1b", tkind=t.kind) for t in lex("wait()")]
    return awaits


def n2_logging(pieces, file, applied):
    si = sig(pieces)
    k = 0
    while k < len(si):
        p = pieces[si[k]]
        if p.tkind == "ident" and p.text in LOG_MACROS and k + 2 < len(si) and pieces[si[k + 1]].text == "!" \
                and pieces[si[k + 2]].text in OPEN:
            prev = pieces[si[k - 1]].text if k > 0 else "{"
            e = _pmatch(pieces, si, k + 2, None)
            nxt = pieces[si[e + 1]].text if e + 1 < len(si) else ""
            if prev in (";", "{", "}") and nxt == ";":
                kill(pieces, range(si[k], si[e + 1] + 1))
                applied.add("N2", file, p.line, f"{p.text}!(..); deleted")
                k = e + 2
                continue
            if prev in (";", "{", "}", "=>") and nxt in ("}", ","):
                # expression position: replace by ()
                kill(pieces, range(si[k], si[e] + 1))
                pieces[si[k]].dead = False
                pieces[si[k]].text = "()"
                pieces[si[k]].kind = "rw"
                pieces[si[k]].rule = "N2"
                applied.add("N2", file, p.line, f"{p.text}!(..) in expression position -> ()")
                k = e + 1
                continue
            raise ExtractError(f"{file}:{p.line}: logging macro in unsupported position")
        k += 1


def _lex_pat(s):
    """pattern tokens; `$NAME` is a wildcard"""
    ct = code(lex(s))
    out = []
    k = 0
    while k < len(ct):
        if ct[k].text == "$" and k + 2 < len(ct) and ct[k + 1].text == "#" and ct[k + 2].kind == "ident":
            out.append(("$1", ct[k + 2].text))      # `$#NAME`: exactly ONE identifier token (safe at the start of a pattern)
            k += 3
        elif ct[k].text == "$" and k + 1 < len(ct) and ct[k + 1].kind == "ident":
            out.append(("$", ct[k + 1].text))
            k += 2
        else:
            out.append(("t", ct[k].text))
            k += 1
    return out


def _match_at(pieces, si, k, pat, pi, caps):
    """try to match pat[pi:] at si[k:]; returns end k or None"""
    if pi == len(pat):
        return k
    kind, val = pat[pi]
    if kind == "t":
        if k < len(si) and pieces[si[k]].text == val:
            return _match_at(pieces, si, k + 1, pat, pi + 1, caps)
        return None
    if kind == "$1":
        if k < len(si) and pieces[si[k]].tkind == "ident" and (val not in caps or
                "".join(pieces[x].text for x in range(si[caps[val][0]], si[caps[val][1] - 1] + 1)) == pieces[si[k]].text):
            caps2 = dict(caps)
            caps2.setdefault(val, (k, k + 1))
            r = _match_at(pieces, si, k + 1, pat, pi + 1, caps2)
            if r is not None:
                caps.clear()
                caps.update(caps2)
            return r
        return None
    # wildcard: balanced, non-greedy, at least one token
    depth = 0
    j = k
    while j < len(si):
        t = pieces[si[j]]
        if t.tkind == "punct" and t.text in OPEN:
            depth += 1
        elif t.tkind == "punct" and t.text in CLOSE:
            depth -= 1
            if depth < 0:
                return None
        j += 1
        if depth == 0:
            caps2 = dict(caps)
            caps2[val] = (k, j)
            r = _match_at(pieces, si, j, pat, pi + 1, caps2)
            if r is not None:
                caps.clear()
                caps.update(caps2)
                return r
            if t.tkind == "punct" and t.text in (";",) and not val.startswith("BLOCK"):
                return None   # an ordinary capture never crosses a statement boundary; `$BLOCK..` (item bodies) may
    return None


def find_pattern(pieces, pat_s):
    pat = _lex_pat(pat_s)
    si = sig(pieces)
    res = []
    k = 0
    while k < len(si):
        caps = {}
        e = _match_at(pieces, si, k, pat, 0, caps)
        if e is not None and e > k:
            res.append((k, e, caps, si))
            k = e
        else:
            k += 1
    return res


def apply_rewrite(pieces, rule, pat_s, rep_s, count, file, applied):
    ms = find_pattern(pieces, pat_s)
    if count == "*":
        pass
    elif count == "?":
        if len(ms) > 1:
            raise ExtractError(f"rewrite {rule} {pat_s!r}: matched {len(ms)} times, expected at most 1")
    elif len(ms) != int(count):
        raise ExtractError(f"rewrite {rule} {pat_s!r}: matched {len(ms)} times, expected {count}")
    for (k, e, caps, si) in reversed(ms):
        def cap_text(name):
            a, b = caps[name]
            return "".join(pieces[x].text for x in range(si[a], si[b - 1] + 1) if not pieces[x].dead)
        def str_bytes(name):
            # `$bytes(NAME)`: NAME captured a plain string literal; its UTF-8 bytes as an array literal (N24)
            lit = cap_text(name).strip()
            if not (lit.startswith('"') and lit.endswith('"')) or "\\" in lit:
                raise ExtractError(f"rewrite {rule}: $bytes({name}) needs a plain string literal, got {lit}")
            return "&[" + ", ".join(f"0x{b:02x}u8" for b in lit[1:-1].encode("utf-8")) + "]"
        rep = re.sub(r"\$bytes\(([A-Za-z_][A-Za-z0-9_]*)\)", lambda m: str_bytes(m.group(1)), rep_s.replace("$#", "$"))
        rep = re.sub(r"\$([A-Za-z_][A-Za-z0-9_]*)", lambda m: cap_text(m.group(1)), rep)
        line = pieces[si[k]].line
        kill(pieces, range(si[k], si[e - 1] + 1))
        newp = [Piece(t.text, "rw", line, rule=rule, tkind=t.kind) for t in lex(rep)]
        pieces[si[k]:si[k] + 1] = newp
        applied.add(rule, file, line, f"{pat_s} => {rep_s}")


def n29_select_biased(pieces, file, applied):
    """N29: `futures_util::select_biased! { P1 = E1.fuse() => B1, P2 = E2.fuse() => B2 ... }`  ->
    `match select_biased_choice() { 0 => { let P1 = E1; B1 } 1 => { let P2 = E2; B2 } .. _ => { let Pn = En; Bn } }`.
    The macro polls the futures in order and runs the arm of the first one that is ready, dropping the others; what
    is kept is "exactly one arm runs, with the output of its own future, after that future completed"; which arm
    is an arbitrary choice (the template's `select_biased_choice` leaf has no postcondition).  Lost: the bias order,
    and that the losing futures are dropped (cancel safety of those futures is C07's business / assumed)."""
    ms = find_pattern(pieces, "futures_util::select_biased! { $BLOCKARMS }")
    if len(ms) != 1:
        raise ExtractError(f"N29: select_biased! occurs {len(ms)} times, expected 1")
    (k, e, caps, si) = ms[0]
    a, b = caps["BLOCKARMS"]            # positions in si of the arms
    line0 = pieces[si[k]].line
    arms = []
    j = a
    while j < b:
        # pattern: up to `=` at depth 0
        d = 0
        p0 = j
        while j < b:
            t = pieces[si[j]]
            if t.tkind == "punct" and t.text in OPEN:
                d += 1
            elif t.tkind == "punct" and t.text in CLOSE:
                d -= 1
            elif d == 0 and t.text == "=":
                break
            elif d == 0 and t.text == "=>":
                raise ExtractError(f"{file}:{t.line}: N29: `complete`/`default` arms are not supported")
            j += 1
        if j >= b:
            raise ExtractError("N29: arm without `=`")
        eq = j
        j += 1
        d = 0
        while j < b:
            t = pieces[si[j]]
            if t.tkind == "punct" and t.text in OPEN:
                d += 1
            elif t.tkind == "punct" and t.text in CLOSE:
                d -= 1
            elif d == 0 and t.text == "=>":
                break
            j += 1
        if j >= b:
            raise ExtractError("N29: arm without `=>`")
        arrow = j
        if [pieces[si[x]].text for x in range(arrow - 4, arrow)] != [".", "fuse", "(", ")"]:
            raise ExtractError(f"{file}:{pieces[si[arrow]].line}: N29: arm future does not end in `.fuse()`")
        j += 1
        if pieces[si[j]].text == "{":
            close = _pmatch(pieces, si, j, None)
            end = close + 1
        else:
            d = 0
            end = j
            while end < b:
                t = pieces[si[end]]
                if t.tkind == "punct" and t.text in OPEN:
                    d += 1
                elif t.tkind == "punct" and t.text in CLOSE:
                    d -= 1
                elif d == 0 and t.text == ",":
                    break
                end += 1
        comma = end if end < b and pieces[si[end]].text == "," else None
        arms.append((p0, eq, arrow, end, comma))
        j = end + (1 if comma is not None else 0)
    if len(arms) < 2:
        raise ExtractError("N29: fewer than two arms")
    edits = []   # (piece index, 'before'|'replace'|'after', text)
    for n, (p0, eq, arrow, end, comma) in enumerate(arms):
        label = "_" if n == len(arms) - 1 else str(n)
        edits.append((si[p0], "before", f"{label} => {{ let "))
        for x in range(arrow - 4, arrow):
            pieces[si[x]].dead = True
        edits.append((si[arrow], "replace", ";"))
        if comma is not None:
            pieces[si[comma]].dead = True
        edits.append((si[end - 1], "after", " }"))
        applied.add("N29", file, pieces[si[p0]].line, f"select_biased! arm {n}: `P = F.fuse() => B` -> `{label} => {{ let P = F; B }}`")
    head = list(range(si[k], si[k + 4]))      # futures_util :: select_biased !
    for n, (idx, how, text) in enumerate(sorted(edits, key=lambda x: (-x[0], 0 if x[1] == "after" else 1))):
        ln = pieces[idx].line
        newp = [Piece(t.text, "rw", ln, rule="N29", tkind=t.kind) for t in lex(text)]
        if how == "before":
            pieces[idx:idx] = newp
        elif how == "after":
            pieces[idx + 1:idx + 1] = newp
        else:
            pieces[idx].dead = True
            pieces[idx + 1:idx + 1] = newp
    for x in head:
        pieces[x].dead = True
    newp = [Piece(t.text, "rw", line0, rule="N29", tkind=t.kind) for t in lex("match select_biased_choice() ")]
    pieces[head[0]:head[0]] = newp
    applied.add("N29", file, line0, "futures_util::select_biased! { arms } -> match select_biased_choice() { arms }")


def n30_alt(pieces, file, applied):
    """N30: winnow `alt((P1, P2, .. Pn)).parse_next(input)` -> nested matches that try each alternative from the same
    start: `{ let alt_checkpoint = *input; match P1 { Ok(v) => Ok(M1), Err(_) => { *input = alt_checkpoint; match P2 {..
    .. match Pn { Ok(v) => Ok(Mn), Err(e) => Err(e) } .. } } } }`.  Transcribed from winnow 0.7's `alt` for tuples
    (ASSUMED): an alternative that fails with a backtrack error leaves no trace (input rewound) except the LAST one,
    whose error - and cursor - are the result.  An alternative is `p` (a parser fn: `p(input)`), `p.map(F)`,
    `literal("s")` / `literal("s").map(F)` (-> `expect_lit_bytes(input, <bytes of s>)`, N24); `F` is a path
    (`Type::Custom` -> `Type::Custom(v)`) or a closure `|_| VALUE` (-> `VALUE`)."""
    count = 0
    while True:
        ms = find_pattern(pieces, "alt(($BLOCKALTS)).parse_next(input)")
        if not ms:
            break
        (k, e, caps, si) = ms[0]
        a, b = caps["BLOCKALTS"]
        alts = []
        d = 0
        start = a
        for j in range(a, b):
            t = pieces[si[j]]
            if t.tkind == "punct" and t.text in OPEN:
                d += 1
            elif t.tkind == "punct" and t.text in CLOSE:
                d -= 1
            elif d == 0 and t.text == ",":
                if j > start:
                    alts.append((start, j))
                start = j + 1
        if b > start:
            alts.append((start, b))
        if len(alts) < 2:
            raise ExtractError("N30: alt with fewer than two alternatives")
        def txt(x, y):
            return "".join(pieces[i].text for i in range(si[x], si[y - 1] + 1) if not pieces[i].dead)
        arms = []
        for (x, y) in alts:
            toks = [pieces[si[j]].text for j in range(x, y)]
            # split off a trailing `.map(F)`
            mapper = None
            if len(toks) >= 5 and toks[-1] == ")" and "map" in toks:
                # find the last top-level `.map(`
                dd = 0
                pos = None
                for j in range(len(toks) - 1, -1, -1):
                    if toks[j] in CLOSE:
                        dd += 1
                    elif toks[j] in OPEN:
                        dd -= 1
                        if dd == 0 and j >= 2 and toks[j - 1] == "map" and toks[j - 2] == "." and j + 1 < len(toks):
                            pos = j
                            break
                if pos is not None:
                    mapper = toks[pos + 1:-1]
                    toks = toks[:pos - 2]
            if len(toks) == 1 and re.match(r"^[A-Za-z_][A-Za-z0-9_]*$", toks[0]):
                call = f"{toks[0]}(input)"
            elif len(toks) == 4 and toks[0] == "literal" and toks[1] == "(" and toks[3] == ")" and toks[2].startswith('"') and "\\" not in toks[2]:
                bs = toks[2][1:-1].encode("utf-8")
                call = "expect_lit_bytes(input, &[" + ", ".join(f"0x{c:02x}u8" for c in bs) + "])"
            else:
                raise ExtractError(f"N30: unsupported alternative `{' '.join(toks)}`")
            if mapper is None:
                val = "v"
            elif mapper[0] == "|":
                # closure `|_| VALUE` or `|x| EXPR` (only the ignoring form is supported)
                if mapper[:3] != ["|", "_", "|"]:
                    raise ExtractError(f"N30: unsupported map closure `{' '.join(mapper)}`")
                val = "".join(mapper[3:])
            else:
                val = "".join(mapper) + "(v)"
            arms.append((call, val))
        out = "{ let alt_checkpoint = *input; "
        closes = ""
        for n, (call, val) in enumerate(arms):
            last = n == len(arms) - 1
            if last:
                out += f"match {call} {{ Ok(v) => Ok({val}), Err(e) => Err(e) }}"
            else:
                out += f"match {call} {{ Ok(v) => Ok({val}), Err(_) => {{ *input = alt_checkpoint; "
                closes += " } }"
        out += closes + " }"
        line = pieces[si[k]].line
        kill(pieces, range(si[k], si[e - 1] + 1))
        newp = [Piece(t.text, "rw", line, rule="N30", tkind=t.kind) for t in lex(out)]
        pieces[si[k]:si[k] + 1] = newp
        applied.add("N30", file, line, f"alt over {len(arms)} alternatives -> try each from the same start, the last one's failure is the result")
        count += 1
    if count == 0:
        raise ExtractError("N30: no `alt((..)).parse_next(input)` found")


def n31_separated(pieces, file, applied):
    """N31: winnow `separated(0.., P, (ws, literal(","), ws)).parse_next(input)?` -> the loop of winnow 0.7.13's
    `separated0_` (combinator/multi.rs), transcribed (ASSUMED to be what the combinator does): parse one element; on a
    backtrack error rewind and return what was collected; then repeatedly remember the position, parse the separator
    (the tuple is a sequence: ws, the literal, ws), on a backtrack error rewind and stop; check that the separator
    consumed something (winnow's infinite-loop assertion - a leaf whose precondition is `false`, so it is an obligation);
    parse the next element, on a backtrack error rewind to BEFORE the separator and stop.  Non-backtrack errors are
    returned.  `P` is a parser fn name."""
    pat = 'separated(0.., $#P, (ws, literal(","), ws)).parse_next(input)?'
    rep = ('{ let mut sep_acc = Vec::new(); let sep_lit: &[u8] = &[0x2cu8]; let sep_start = *input; '
           'let sep_first = $P(input); '
           'let mut sep_more: bool = match sep_first { Ok(o) => { sep_acc.push(o); true } '
           'Err(ErrMode::Backtrack(_)) => { *input = sep_start; false } Err(e) => { return Err(e); } }; '
           'while sep_more { let sep_start = *input; let sep_len = input.len(); '
           'let sep_r = match ws(input) { Err(e) => Err(e), Ok(_) => match expect_lit_bytes(input, sep_lit) { Err(e) => Err(e), Ok(_) => ws(input) } }; '
           'match sep_r { Err(ErrMode::Backtrack(_)) => { *input = sep_start; sep_more = false; } Err(e) => { return Err(e); } '
           'Ok(_) => { if input.len() == sep_len { separated_must_consume(); } '
           'let sep_next = $P(input); '
           'match sep_next { Ok(o) => { sep_acc.push(o); } Err(ErrMode::Backtrack(_)) => { *input = sep_start; sep_more = false; } Err(e) => { return Err(e); } } } } } '
           'sep_acc }')
    ms = find_pattern(pieces, pat)
    if len(ms) != 1:
        raise ExtractError(f"N31: `separated(0.., P, (ws, literal(\",\"), ws)).parse_next(input)?` occurs {len(ms)} times, expected 1")
    apply_rewrite(pieces, "N31", pat, rep, "1", file, applied)


def n34_format_macros(pieces, argmap, file, applied):
    """N34: `write!(f, "lit{a}lit{}", b)` / `writeln!(..)` -> `{ f.write_lit(&[bytes of lit])?; <fmt of a>?; .. ; <last piece> }`.
    ASSUMED (core::fmt): `write!` hands the literal pieces of the format string and the `Display::fmt` output of each `{}`
    / `{name}` argument to the formatter, in order, stopping at the first error; `writeln!` adds a final "\n".  Only
    plain `{}` / `{ident}` placeholders (no format specs) are accepted.  Which `fmt` an argument's type selects is given
    by the template (`//@ n34 EXPR=CALL`, `$` = the argument expression, e.g. `optional=TypeRef::fmt($,f)`,
    `self.name=f.write_str($)`); rustc type-checks the generated call, so a wrong entry cannot verify silently."""
    import re as _re
    count = 0
    while True:
        ms = find_pattern(pieces, "write!($BLOCKARGS)") + find_pattern(pieces, "writeln!($BLOCKARGS)")
        if not ms:
            break
        ms.sort(key=lambda m: m[0])
        (k, e, caps, si) = ms[-1]        # last first, so earlier indices stay valid
        is_ln = pieces[si[k]].text == "writeln"
        a, b = caps["BLOCKARGS"]
        toks = [pieces[si[j]] for j in range(a, b)]
        # split top-level commas
        args, cur, d = [], [], 0
        for t in toks:
            if t.tkind == "punct" and t.text in OPEN:
                d += 1
            elif t.tkind == "punct" and t.text in CLOSE:
                d -= 1
            if d == 0 and t.text == ",":
                args.append(cur); cur = []
            else:
                cur.append(t)
        if cur:
            args.append(cur)
        if len(args) < 2 or "".join(t.text for t in args[0]) != "f" or len(args[1]) != 1 or not args[1][0].text.startswith('"'):
            raise ExtractError("N34: unsupported write!/writeln! form at line %d" % pieces[si[k]].line)
        fmt = args[1][0].text[1:-1]
        pos_args = ["".join(t.text for t in x) for x in args[2:]]
        # unescape
        def unesc(x):
            out = bytearray(); i = 0
            while i < len(x):
                c = x[i]
                if c == "\\":
                    nx = x[i + 1]
                    m = {"n": 10, "t": 9, "\\": 92, '"': 34, "r": 13}
                    if nx not in m:
                        raise ExtractError(f"N34: unsupported escape \\{nx}")
                    out.append(m[nx]); i += 2
                else:
                    out.extend(c.encode("utf-8")); i += 1
            return bytes(out)
        parts = []   # ('lit', bytes) | ('arg', expr)
        i = 0; lit = ""; pi = 0
        while i < len(fmt):
            if fmt.startswith("{{", i) or fmt.startswith("}}", i):
                raise ExtractError("N34: escaped braces in a format string are not supported")
            if fmt[i] == "{":
                j = fmt.index("}", i)
                name = fmt[i + 1:j]
                if lit:
                    parts.append(("lit", unesc(lit))); lit = ""
                if name == "":
                    if pi >= len(pos_args):
                        raise ExtractError("N34: more {} than arguments")
                    parts.append(("arg", pos_args[pi])); pi += 1
                elif _re.match(r"^[A-Za-z_][A-Za-z0-9_]*$", name):
                    parts.append(("arg", name))
                else:
                    raise ExtractError(f"N34: unsupported placeholder {{{name}}}")
                i = j + 1
            else:
                lit += fmt[i]; i += 1
        if is_ln:
            lit += "\\n"
        if lit:
            parts.append(("lit", unesc(lit)))
        if pi != len(pos_args):
            raise ExtractError("N34: unused positional arguments")
        calls = []
        for kind, v in parts:
            if kind == "lit":
                calls.append("f.write_lit(&[" + ", ".join(f"0x{c:02x}u8" for c in v) + "])")
            else:
                key = v.replace(" ", "")
                if key not in argmap:
                    raise ExtractError(f"N34: no `//@ n34 {key}=CALL` entry for format argument `{v}`")
                calls.append(argmap[key].replace("$", v))
        if not calls:
            out = "{ Ok(()) }"
        else:
            out = "{ " + " ".join(c + "?;" for c in calls[:-1]) + " " + calls[-1] + " }"
        line = pieces[si[k]].line
        kill(pieces, range(si[k], si[e - 1] + 1))
        newp = [Piece(t.text, "rw", line, rule="N34", tkind=t.kind) for t in lex(out)]
        pieces[si[k]:si[k] + 1] = newp
        applied.add("N34", file, line, f"write!/writeln! with format \"{fmt}\" -> {len(calls)} formatter calls in order")
        count += 1
    if count == 0:
        raise ExtractError("N34: no write!/writeln! found")


def n32_canonical_loops(pieces, file, applied):
    """N32: `loop { if C { break; } REST }` -> `while !(C) { REST }` (the `if` is the first statement of the body, has no
    `else`, and contains nothing but `break;`).  The two forms are the same program; loop invariants in the templates are
    written for the `while` form, so a refactoring between the forms does not disturb the proof."""
    while True:
        si = sig(pieces)
        hit = None
        for k in range(len(si) - 6):
            if pieces[si[k]].text == "loop" and pieces[si[k]].tkind == "ident" and pieces[si[k + 1]].text == "{" and pieces[si[k + 2]].text == "if":
                # condition up to the `{` at depth 0
                d = 0
                j = k + 3
                while j < len(si):
                    t = pieces[si[j]]
                    if t.tkind == "punct" and t.text in "([":
                        d += 1
                    elif t.tkind == "punct" and t.text in ")]":
                        d -= 1
                    elif d == 0 and t.text == "{":
                        break
                    j += 1
                if j + 3 < len(si) and [pieces[si[j + x]].text for x in (1, 2, 3)] == ["break", ";", "}"] and pieces[si[j + 4]].text != "else":
                    if any(pieces[si[x]].text in ("let", "&&", "||") and pieces[si[x]].text == "let" for x in range(k + 3, j)):
                        continue   # `if let` is not a boolean condition
                    hit = (k, j)
                    break
        if hit is None:
            return
        k, j = hit
        cond = "".join(pieces[i].text for i in range(si[k + 3], si[j - 1] + 1) if not pieces[i].dead).strip()
        line = pieces[si[k]].line
        # kill `if C { break; }` and the `loop` keyword; emit `while !(C)` in place of `loop`
        kill(pieces, range(si[k + 2], si[j + 3] + 1))
        pieces[si[k]].dead = True
        newp = [Piece(t.text, "rw", line, rule="N32", tkind=t.kind) for t in lex(f"while !({cond})")]
        pieces[si[k]:si[k]] = newp
        applied.add("N32", file, line, f"loop {{ if {cond} {{ break; }} .. }} -> while !({cond}) {{ .. }}")


def n38_while_let(pieces, file, applied):
    """N38: `loop { let X = match E { Some(Y) => Y, None => break, }; REST }` -> `while let Some(X) = E { REST }` (the `let` is the
    first statement of the body; arms in either order; `break` without label or value).  The desugaring of `while let` written out:
    the same program; the templates' loop invariants are written for the `while let` form."""
    while True:
        si = sig(pieces)
        hit = None
        for k in range(len(si) - 12):
            tx = lambda j: pieces[si[j]].text if j < len(si) else ""
            if not (tx(k) == "loop" and pieces[si[k]].tkind == "ident" and tx(k + 1) == "{" and tx(k + 2) == "let" and pieces[si[k + 3]].tkind == "ident" and tx(k + 4) == "=" and tx(k + 5) == "match"):
                continue
            # scrutinee up to the `{` at depth 0
            d, j = 0, k + 6
            while j < len(si):
                t = pieces[si[j]]
                if t.tkind == "punct" and t.text in "([":
                    d += 1
                elif t.tkind == "punct" and t.text in ")]":
                    d -= 1
                elif d == 0 and t.text == "{":
                    break
                j += 1
            if j >= len(si) or j == k + 6:
                continue
            mo = j
            mc = _pmatch(pieces, si, mo, None)
            arms = [tx(x) for x in range(mo + 1, mc)]
            a1 = lambda y: ["Some", "(", y, ")", "=>", y, ",", "None", "=>", "break"]
            a2 = lambda y: ["None", "=>", "break", ",", "Some", "(", y, ")", "=>", y]
            y = arms[2] if arms[:1] == ["Some"] and len(arms) > 2 else (arms[6] if len(arms) > 6 else None)
            core = [a for a in arms]
            if core and core[-1] == ",":
                core = core[:-1]
            if y is None or core not in (a1(y), a2(y)) or tx(mc + 1) != ";":
                continue
            hit = (k, mo, mc)
            break
        if hit is None:
            return
        k, mo, mc = hit
        line = pieces[si[k]].line
        var = pieces[si[k + 3]].text
        scrut = "".join(pieces[i].text for i in range(si[k + 6], si[mo - 1] + 1) if not pieces[i].dead).strip()
        # kill `loop`, and `let X = match E { .. };` ; keep the opening brace of the loop body
        pieces[si[k]].dead = True
        kill(pieces, range(si[k + 2], si[mc + 1] + 1))
        newp = [Piece(t.text, "rw", line, rule="N38", tkind=t.kind) for t in lex(f"while let Some({var}) = {scrut}")]
        pieces[si[k]:si[k]] = newp
        applied.add("N38", file, line, f"loop {{ let {var} = match {scrut} {{ Some(y) => y, None => break }}; .. }} -> while let Some({var}) = {scrut} {{ .. }}")


def n37_unnegate_if(pieces, file, applied):
    """N37: `if !C { X } else { Y }` -> `if C { Y } else { X }` (C a parenthesised expression, or a path / field / call chain
    without a binary operator at depth 0; the `else` is a plain block, not `else if`; not `if let`).  The same program; the
    templates number the loops of a function and anchor hints on statements, so which branch comes first matters to them:
    flipping an if / else by negating its condition is an everyday edit and must not disturb that."""
    BIN = {"&&", "||", "==", "!=", "<", ">", "<=", ">=", "+", "-", "*", "/", "%", "|", "&", "^", "as", "let", "=", "..", "..="}
    while True:
        si = sig(pieces)
        hit = None
        for k in range(len(si) - 6):
            if not (pieces[si[k]].text == "if" and pieces[si[k]].tkind == "ident" and pieces[si[k + 1]].text == "!"):
                continue
            if k > 0 and pieces[si[k - 1]].text == "else":
                continue       # an `else if` chain is left alone
            d = 0
            j = k + 2
            ok = True
            while j < len(si):
                t = pieces[si[j]]
                if t.tkind == "punct" and t.text in "([":
                    d += 1
                elif t.tkind == "punct" and t.text in ")]":
                    d -= 1
                elif d == 0 and t.text == "{":
                    break
                elif d == 0 and t.text in BIN:
                    ok = False
                j += 1
            if not ok or j >= len(si) or j == k + 2:
                continue
            xo = j
            xc = _pmatch(pieces, si, xo, None)
            if xc + 2 >= len(si) or pieces[si[xc + 1]].text != "else" or pieces[si[xc + 2]].text != "{":
                continue
            yo = xc + 2
            yc = _pmatch(pieces, si, yo, None)
            hit = (k, xo, xc, yo, yc)
            break
        if hit is None:
            return
        k, xo, xc, yo, yc = hit
        line = pieces[si[k]].line
        cond = "".join(pieces[i].text for i in range(si[k + 2], si[xo - 1] + 1) if not pieces[i].dead).strip()
        bang = si[k + 1]
        X = pieces[si[xo]:si[xc] + 1]
        mid = pieces[si[xc] + 1:si[yo]]
        Y = pieces[si[yo]:si[yc] + 1]
        pieces[si[xo]:si[yc] + 1] = Y + mid + X
        pieces[bang].dead = True
        applied.add("N37", file, line, f"if !{cond} {{ X }} else {{ Y }} -> if {cond} {{ Y }} else {{ X }}")


def n33_canonical_local(pieces, name, pat_s, file, applied):
    """N33: alpha-renaming of a local.  `//@ local NAME "pattern with $#X"`: the pattern locates the binding of a local
    (once); every identifier token of the item equal to the captured name - except after `.` / `::` (fields, methods,
    paths) - is renamed to NAME, which must not already occur.  Renaming a local consistently does not change the
    program; invariants and hints in the templates can then use the canonical name whatever the source calls it."""
    ms = find_pattern(pieces, pat_s)
    if len(ms) == 0:
        return      # this form of the binding does not occur (another `local` line may describe the form that does)
    if len(ms) != 1:
        raise ExtractError(f"N33 local {name}: binding pattern {pat_s!r} matched {len(ms)} times, expected at most 1")
    (k, e, caps, si) = ms[0]
    if "X" not in caps:
        raise ExtractError(f"N33 local {name}: the pattern must capture the binding as `$#X`")
    a, b = caps["X"]
    cur = pieces[si[a]].text
    if cur == name:
        return
    si = sig(pieces)
    if any(pieces[i].text == name and pieces[i].tkind == "ident" for i in si):
        raise ExtractError(f"N33 local {name}: the canonical name already occurs in the item")
    n = 0
    for pos, i in enumerate(si):
        pc = pieces[i]
        if pc.tkind == "ident" and pc.text == cur and not (pos > 0 and pieces[si[pos - 1]].text in (".", "::")):
            pc.text = name
            pc.kind = "rw"
            pc.rule = "N33"
            n += 1
        elif pc.tkind == "str" and ("{" + cur + "}") in pc.text and pos >= 3 and any(
                pieces[si[q]].text in ("write", "writeln", "format", "format_args") and pieces[si[q + 1]].text == "!" for q in range(max(0, pos - 6), pos - 1)):
            # an inline format argument `{local}` of a formatting macro names the local too
            pc.text = pc.text.replace("{" + cur + "}", "{" + name + "}")
            pc.kind = "rw"
            pc.rule = "N33"
            n += 1
    applied.add("N33", file, pieces[si[0]].line, f"local `{cur}` renamed to its canonical name `{name}` ({n} occurrences)")


def fn_param_names(pieces):
    """names of the non-self parameters of the fn item in `pieces`, by position (None for pattern parameters)"""
    si = sig(pieces)
    k = next((x for x in range(len(si)) if pieces[si[x]].text == "fn" and pieces[si[x]].tkind == "ident"), None)
    if k is None:
        return None, None
    j = k + 2
    if j < len(si) and pieces[si[j]].text == "<":
        d = 0
        while j < len(si):
            t = pieces[si[j]].text
            if t == "<":
                d += 1
            elif t == ">":
                d -= 1
            elif t == ">>":
                d -= 2
            j += 1
            if d <= 0:
                break
    if j >= len(si) or pieces[si[j]].text != "(":
        return None, None
    close = _pmatch(pieces, si, j, None)
    params = []
    d = 0
    start = j + 1
    ang = 0
    for x in range(j + 1, close + 1):
        t = pieces[si[x]]
        if x == close or (d == 0 and ang <= 0 and t.text == ","):
            if x > start:
                params.append((start, x))
            start = x + 1
            continue
        if t.tkind == "punct" and t.text in OPEN:
            d += 1
        elif t.tkind == "punct" and t.text in CLOSE:
            d -= 1
        elif t.text == "<":
            ang += 1
        elif t.text == ">":
            ang -= 1
        elif t.text == ">>":
            ang -= 2
    names = []
    for (a, b) in params:
        toks = [pieces[si[x]].text for x in range(a, b)]
        if "self" in toks[:3]:
            continue
        if toks and toks[0] == "mut":
            toks = toks[1:]
            a += 1
        if len(toks) >= 2 and toks[1] == ":" and pieces[si[a]].tkind == "ident":
            names.append(toks[0])
        else:
            names.append(None)
    return names, si


def n33_params(pieces, canon, file, applied):
    """N33 for parameters: `//@ params a b c` gives the canonical names of the non-self parameters by position (`_` = leave);
    a parameter that the source calls something else is renamed throughout the item"""
    names, si = fn_param_names(pieces)
    if names is None:
        raise ExtractError("N33 params: cannot find the parameter list")
    if len(names) != len(canon):
        raise ExtractError(f"N33 params: the fn has {len(names)} parameters, the template names {len(canon)}")
    for cur, want in zip(names, canon):
        if want == "_" or cur is None or cur == want:
            continue
        si = sig(pieces)
        if any(pieces[i].text == want and pieces[i].tkind == "ident" for i in si):
            raise ExtractError(f"N33 params: canonical name `{want}` already occurs in the item")
        n = 0
        for pos, i in enumerate(si):
            pc = pieces[i]
            if pc.tkind == "ident" and pc.text == cur and not (pos > 0 and pieces[si[pos - 1]].text in (".", "::")):
                pc.text = want
                pc.kind = "rw"
                pc.rule = "N33"
                n += 1
        applied.add("N33", file, pieces[si[0]].line, f"parameter `{cur}` renamed to its canonical name `{want}` ({n} occurrences)")


def n12_break_value(pieces, name, file, applied):
    """`let NAME = loop { .. break E .. };` -> `let __brk; loop { .. { __brk = E; break; } .. } let NAME = __brk;`"""
    si = sig(pieces)
    hit = None
    for k in range(len(si) - 4):
        if [pieces[si[k + j]].text for j in range(4)] == ["let", name, "=", "loop"]:
            if hit is not None:
                raise ExtractError(f"N12: `let {name} = loop` occurs more than once")
            hit = k
    if hit is None:
        raise ExtractError(f"N12: `let {name} = loop` not found")
    ob = hit + 4
    if pieces[si[ob]].text != "{":
        raise ExtractError("N12: loop without block")
    cb = _pmatch(pieces, si, ob, None)
    if pieces[si[cb + 1]].text != ";":
        raise ExtractError("N12: expected `;` after the loop")
    line = pieces[si[hit]].line
    # breaks belonging to this loop (not nested loops / closures)
    edits = []
    k = ob + 1
    while k < cb:
        t = pieces[si[k]]
        if t.tkind == "ident" and t.text in ("loop", "while", "for"):
            # skip nested loop body
            j = k + 1
            d = 0
            while not (pieces[si[j]].text == "{" and d == 0):
                if pieces[si[j]].text in "([":
                    d += 1
                elif pieces[si[j]].text in ")]":
                    d -= 1
                j += 1
            k = _pmatch(pieces, si, j, None) + 1
            continue
        if t.tkind == "ident" and t.text == "break":
            j = k + 1
            d = 0
            while j < cb:
                x = pieces[si[j]]
                if x.tkind == "punct" and x.text in OPEN:
                    d += 1
                elif x.tkind == "punct" and x.text in CLOSE:
                    if d == 0:
                        break
                    d -= 1
                elif d == 0 and x.text in (",", ";"):
                    break
                j += 1
            if j == k + 1:
                raise ExtractError("N12: `break` without value inside a value loop")
            edits.append((k, j))
            k = j
            continue
        k += 1
    if not edits:
        raise ExtractError("N12: no `break <value>` found")
    # apply from the back
    semi = si[cb + 1]
    pieces[semi] = Piece(f" let {name} = __brk;", "rw", pieces[semi].line, rule="N12", tkind="rwtext")
    for (k, j) in reversed(edits):
        expr = "".join(pieces[x].text for x in range(si[k + 1], si[j - 1] + 1) if not pieces[x].dead)
        bl = pieces[si[k]].line
        kill(pieces, range(si[k], si[j - 1] + 1))
        newp = [Piece(t.text, "rw", bl, rule="N12", tkind=t.kind) for t in lex("{ __brk = " + expr.strip() + "; break; }")]
        pieces[si[k]:si[k] + 1] = newp
        # indices after si[k] shifted; recompute si for earlier edits is unnecessary (we go backwards) but semi moved:
    si = sig(pieces)
    for k in range(len(si) - 4):
        if [pieces[si[k + j]].text for j in range(4)] == ["let", name, "=", "loop"]:
            l0 = pieces[si[k]].line
            kill(pieces, range(si[k], si[k + 2] + 1))
            newp = [Piece(t.text, "rw", l0, rule="N12", tkind=t.kind) for t in lex("let __brk; ")]
            pieces[si[k]:si[k] + 1] = newp
            break
    # the rwtext piece must be lexable for later matching: split it
    for i, pc in enumerate(pieces):
        if pc.tkind == "rwtext" and not pc.dead:
            pieces[i:i + 1] = [Piece(t.text, "rw", pc.line, rule=pc.rule, tkind=t.kind) for t in lex(pc.text)]
            break
    applied.add("N12", file, line, f"let {name} = loop {{ break E }} -> deferred initialisation, {len(edits)} break(s)")


def _split_top(pieces, si, lo, hi):
    """split code positions [lo,hi) at top-level commas (angle brackets counted); returns list of (a,b)"""
    out = []
    depth = 0
    a = lo
    for k in range(lo, hi):
        t = pieces[si[k]]
        if t.tkind == "punct":
            if t.text in OPEN or t.text == "<":
                depth += 1
            elif t.text in CLOSE or t.text == ">":
                depth -= 1
            elif t.text == ">>":
                depth -= 2
            elif t.text == "->":
                pass
            elif t.text == "," and depth == 0:
                out.append((a, k + 1))
                a = k + 1
    if a < hi:
        out.append((a, hi))
    return out


def n5_monomorphise(pieces, mapping, file, applied):
    """instantiate type parameters of a fn with the only implementors: drop them from the generic
    list, drop where-predicates that mention them, substitute them elsewhere"""
    si = sig(pieces)
    fnk = next(k for k, i in enumerate(si) if pieces[i].text == "fn" and pieces[i].tkind == "ident")
    line = pieces[si[fnk]].line
    k = fnk + 2
    if pieces[si[k]].text == "<":
        depth = 0
        j = k
        while True:
            t = pieces[si[j]].text
            if t == "<":
                depth += 1
            elif t == ">":
                depth -= 1
                if depth == 0:
                    break
            elif t == ">>":
                depth -= 2
                if depth <= 0:
                    break
            j += 1
        params = _split_top(pieces, si, k + 1, j)
        keep = [(a, b) for (a, b) in params if pieces[si[a]].text not in mapping]
        for (a, b) in params:
            if pieces[si[a]].text in mapping:
                kill(pieces, range(si[a], si[b - 1] + 1))
        if not keep:
            kill(pieces, [si[k], si[j]])
        else:
            # a kept last param may now end with a dangling comma: harmless in Rust
            pass
    # signature end
    si = sig(pieces)
    depth = 0
    body = where = None
    for k, i in enumerate(si):
        t = pieces[i]
        if t.tkind == "punct" and t.text in "([":
            depth += 1
        elif t.tkind == "punct" and t.text in ")]":
            depth -= 1
        elif depth == 0 and t.text == "where" and t.tkind == "ident" and where is None:
            where = k
        elif depth == 0 and t.text == "{" and t.tkind == "punct":
            body = k
            break
    if where is not None:
        preds = _split_top(pieces, si, where + 1, body)
        left = 0
        for (a, b) in preds:
            if any(pieces[si[x]].text in mapping and pieces[si[x]].tkind == "ident" for x in range(a, b)):
                kill(pieces, range(si[a], si[b - 1] + 1))
            else:
                left += 1
        if left == 0:
            pieces[si[where]].dead = True
    # substitute
    n = 0
    for i, pc in enumerate(list(pieces)):
        pass
    idx = 0
    while idx < len(pieces):
        pc = pieces[idx]
        if not pc.dead and pc.tkind == "ident" and pc.text in mapping and pc.kind in ("src", "rw"):
            newp = [Piece(t.text, "rw", pc.line, rule="N5", tkind=t.kind) for t in lex(mapping[pc.text])]
            pieces[idx:idx + 1] = newp
            idx += len(newp)
            n += 1
        else:
            idx += 1
    applied.add("N5", file, line, "monomorphised: " + ", ".join(f"{k}={v}" for k, v in mapping.items()) + f" ({n} substitutions)")


def n17_mut_self(pieces, file, applied):
    """`fn f(mut self, ..) { B }` -> `fn f(self, ..) { let mut self_ = self; B[self := self_] }`"""
    si = sig(pieces)
    hit = None
    for k in range(len(si) - 1):
        if pieces[si[k]].text == "mut" and pieces[si[k + 1]].text == "self" and pieces[si[k - 1]].text == "(":
            hit = k
            break
    if hit is None:
        raise ExtractError("N17: `(mut self` not found")
    line = pieces[si[hit]].line
    pieces[si[hit]].dead = True
    if pieces[si[hit] + 1].tkind == "ws":
        pieces[si[hit] + 1].dead = True
    # body
    depth = 0
    body = None
    for k in range(hit, len(si)):
        t = pieces[si[k]]
        if t.tkind == "punct" and t.text in "([":
            depth += 1
        elif t.tkind == "punct" and t.text in ")]":
            depth -= 1
        elif t.text == "{" and t.tkind == "punct" and depth <= 0:
            body = k
            break
    if body is None:
        raise ExtractError("N17: no body")
    for k in range(body + 1, len(si)):
        if pieces[si[k]].text == "self" and pieces[si[k]].tkind == "ident":
            pieces[si[k]] = Piece("self_", "rw", pieces[si[k]].line, rule="N17", tkind="ident")
    ob = si[body]
    pieces[ob + 1:ob + 1] = [Piece(t.text, "rw", line, rule="N17", tkind=t.kind) for t in lex(" let mut self_ = self;")]
    applied.add("N17", file, line, "by-value `mut self` receiver: `let mut self_ = self;` and self renamed in the body")


def name_return(pieces, file):
    """`-> T` => `-> (r: T)` in the signature of a fn item"""
    si = sig(pieces)
    # signature = up to first `{` at paren depth 0, or `;`
    depth = 0
    arrow = None
    body = None
    where = None
    for k, i in enumerate(si):
        t = pieces[i]
        if t.tkind == "punct" and t.text in "([":
            depth += 1
        elif t.tkind == "punct" and t.text in ")]":
            depth -= 1
        elif depth == 0 and t.text == "->" and arrow is None:
            arrow = k
        elif depth == 0 and t.text == "where" and t.tkind == "ident" and where is None:
            where = k
        elif depth == 0 and t.text in ("{", ";") and t.tkind == "punct":
            body = k
            break
    if body is None:
        raise ExtractError(f"{file}: fn without body")
    if arrow is not None:
        end = where if where is not None else body
        first = si[arrow + 1]
        last = si[end - 1]
        pieces[first].text = "(r: " + pieces[first].text
        pieces[last].text = pieces[last].text + ")"
    return body


def loops_of(pieces, body_k):
    """list of (kw_index_in_si, open_brace_k, close_brace_k) for loops in body order"""
    si = sig(pieces)
    out = []
    k = body_k
    while k < len(si):
        t = pieces[si[k]]
        if t.tkind == "ident" and t.text in ("loop", "while", "for"):
            if t.text == "for" and k + 1 < len(si) and pieces[si[k + 1]].text == "<":
                k += 1
                continue
            # find `{` at depth 0
            depth = 0
            j = k + 1
            ob = None
            while j < len(si):
                tt = pieces[si[j]]
                if tt.tkind == "punct" and tt.text in "([":
                    depth += 1
                elif tt.tkind == "punct" and tt.text in ")]":
                    depth -= 1
                elif tt.tkind == "punct" and tt.text == "{" and depth == 0:
                    ob = j
                    break
                j += 1
            if ob is None:
                raise ExtractError("loop without body")
            cb = _pmatch(pieces, si, ob, None)
            out.append((k, ob, cb))
        k += 1
    return out, si


def stmt_start(pieces, si, k, lo):
    """code position of the start of the statement containing position k (not before lo)"""
    depth = 0
    j = k
    while j > lo:
        t = pieces[si[j - 1]]
        if t.tkind == "punct" and t.text in CLOSE:
            if depth == 0 and t.text == "}":
                return j
            depth += 1
        elif t.tkind == "punct" and t.text in OPEN:
            if depth == 0:
                if t.text == "{":
                    return j
                # inside parens/brackets: continue outward
                depth -= 0
                j -= 1
                continue
            depth -= 1
        elif t.tkind == "punct" and t.text == ";" and depth == 0:
            return j
        elif t.tkind == "punct" and t.text == "=>" and depth == 0:
            return -j   # negative: start of a bare match-arm expression
        j -= 1
    return lo


def arm_end(pieces, si, k):
    """code position of the last token of the bare match-arm expression starting at k"""
    depth = 0
    j = k
    while j < len(si):
        t = pieces[si[j]]
        if t.tkind == "punct" and t.text in OPEN:
            depth += 1
        elif t.tkind == "punct" and t.text in CLOSE:
            if depth == 0:
                return j - 1
            depth -= 1
        elif t.tkind == "punct" and t.text == "," and depth == 0:
            return j - 1
        j += 1
    raise ExtractError("match arm without end")


# ----------------------------------------------------------------------------------------
# template processing
# ----------------------------------------------------------------------------------------

@dataclass
class Block:
    where: str            # spec | loop K | at X | before "a" | after "a" | cancel
    lines: list = field(default_factory=list)


def parse_kv(s):
    out = {}
    for tok in shlex.split(s):
        if "=" in tok:
            k, v = tok.split("=", 1)
            out[k] = v
        else:
            out[tok] = True
    return out


CLAUSE_RE = re.compile(r"//#\s*(\S+)(?:\s+tags=(\S+))?\s*$")


class Generator:
    def __init__(self, repo, template_path, canary=False, lenient=False):
        self.lenient = lenient      # skip proof aids whose loop / anchor no longer exists (recorded in lost_aids)
        self.lost_aids = []
        self.trait_cover = {}       # (file, 'impl T for X') -> names of the fns extracted from that trait impl
        self.trait_cover_ok = {}    # fns of a trait impl deliberately left out (//@uncovered)
        self.implicit_ok = set()    # (file, trait, type) of Drop / Deref impls the template knows about (//@implicit)
        self.canary = canary
        self.canaries = []       # (canary id, item id, where)
        self.repo = repo
        self.template_path = template_path
        self.out = []            # list of (text_line, mapinfo)
        self.applied = Applied()
        self.items = []          # metadata of extracted items
        self.clauses = {}        # clause id -> {tags, text, fn}
        self._src_cache = {}
        self._template_text = ""

    # ---- output helpers
    def emit(self, text, info):
        for ln in text.split("\n"):
            self.out.append((ln, info))

    def dep_file(self, dep, rel):
        """absolute path of file `rel` of dependency `dep` at the version pinned in the repository's Cargo.lock"""
        lock = open(os.path.join(self.repo, "Cargo.lock"), encoding="utf-8").read()
        vers = re.findall(r'\[\[package\]\]\s*name = "' + re.escape(dep) + r'"\s*version = "([^"]+)"', lock)
        if len(vers) != 1:
            raise ExtractError(f"//@expect dep={dep}: Cargo.lock pins {len(vers)} versions of it ({vers})")
        import glob
        home = os.environ.get("CARGO_HOME", os.path.expanduser("~/.cargo"))
        dirs = glob.glob(os.path.join(home, "registry", "src", "*", f"{dep}-{vers[0]}"))
        if len(dirs) != 1:
            raise ExtractError(f"//@expect dep={dep}: source of {dep}-{vers[0]} not found in cargo's registry ({len(dirs)} candidates)")
        return os.path.join(dirs[0], rel)

    def src(self, file):
        if file not in self._src_cache:
            p = file if os.path.isabs(file) else os.path.join(self.repo, file)
            if not os.path.exists(p):
                raise ExtractError(f"source file missing: {file}")
            s = open(p, encoding="utf-8").read()
            try:
                self._src_cache[file] = (s, lex(s))
            except LexError as e:
                raise ExtractError(f"{file}: {e}")
        return self._src_cache[file]

    def read_template(self, path, seen=()):
        lines = []
        for ln in open(path, encoding="utf-8").read().split("\n"):
            m = re.match(r"\s*//@include\s+(\S+)(\s+nocanary)?\s*$", ln)
            if m and m.group(2) and self.canary:
                # `//@include file nocanary`: pure lemma text (no extracted code, no canary inside) is left out of the canary
                # copy - it cannot influence whether a canary in extracted code fails, and verifying it again costs time
                continue
            if m:
                inc = os.path.join(os.path.dirname(self.template_path), m.group(1))
                if inc in seen:
                    raise ExtractError("include cycle")
                lines += self.read_template(inc, seen + (inc,))
            else:
                lines.append(ln)
        return lines

    def run(self):
        lines = self.read_template(self.template_path)
        self._template_text = "\n".join(lines)
        i = 0
        while i < len(lines):
            ln = lines[i]
            s = ln.strip()
            if s.startswith("//@impl "):
                kv = parse_kv(s[len("//@impl "):])
                self.emit_impl_header(kv)
                i += 1
            elif s.startswith("//@endimpl"):
                self.emit("}", {"k": "tmpl"})
                i += 1
            elif s.startswith("//@extract "):
                kv = parse_kv(s[len("//@extract "):])
                j = i + 1
                blocks = []
                opts = {"rewrites": []}
                cur = None
                while j < len(lines) and not lines[j].strip().startswith("//@end"):
                    t = lines[j].strip()
                    if t.startswith("//@"):
                        d = t[3:].strip()
                        if d.startswith("rewrite "):
                            m = re.match(r'rewrite\s+(\S+)\s+"((?:[^"\\]|\\.)*)"\s*=>\s*"((?:[^"\\]|\\.)*)"(?:\s+count=(\S+))?', d)
                            if not m:
                                raise ExtractError(f"bad rewrite directive: {d}")
                            unq = lambda x: x.replace('\\"', '"').replace("\\\\", "\\")
                            opts["rewrites"].append((m.group(1), unq(m.group(2)), unq(m.group(3)), m.group(4) or "1"))
                            cur = None
                        elif d.startswith("n12 "):
                            opts.setdefault("n12", []).append(d[4:].strip())
                            cur = None
                        elif d == "pubfields":
                            opts["pubfields"] = True
                            cur = None
                        elif d.startswith("n5 "):
                            opts["n5"] = dict(x.split("=", 1) for x in d[3:].split())
                            cur = None
                        elif d == "n19":
                            opts["n19"] = True
                            cur = None
                        elif d == "n8":
                            opts["n8"] = True
                            cur = None
                        elif d == "n17":
                            opts["n17"] = True
                            cur = None
                        elif d == "n29":
                            opts["n29"] = True
                            cur = None
                        elif d == "n30":
                            opts["n30"] = True
                        elif d == "n31":
                            opts["n31"] = True
                            cur = None
                        elif d.startswith("n34 ") or d == "n34":
                            m34 = opts.setdefault("n34", {})
                            for ent in d.split()[1:]:
                                kx, vx = ent.split("=", 1)
                                m34[kx] = vx
                            cur = None
                        elif d.startswith("params ") or d == "params":
                            opts["params"] = d.split()[1:]
                            cur = None
                        elif d.startswith("local "):
                            m = re.match(r'local\s+(\S+)\s+"((?:[^"\\]|\\.)*)"', d)
                            if not m:
                                raise ExtractError(f"bad local directive: {d}")
                            opts.setdefault("locals", []).append((m.group(1), m.group(2)))
                            cur = None
                        elif d == "trusted":
                            opts["trusted"] = True
                            cur = None
                        elif d.startswith("keepderive "):
                            opts["keepderive"] = [x.strip() for x in d[len("keepderive "):].split(",")]
                            cur = None
                        elif d.startswith("rename "):
                            opts["rename"] = d[len("rename "):].strip()
                            cur = None
                        elif d.startswith("prefix "):
                            opts["prefix"] = d[len("prefix "):]
                            cur = None
                        else:
                            cur = Block(d)
                            blocks.append(cur)
                    else:
                        if cur is not None:
                            cur.lines.append(lines[j])
                        elif t:
                            raise ExtractError(f"template line outside any block in extract {kv.get('id')}: {t}")
                    j += 1
                if j >= len(lines):
                    raise ExtractError(f"//@extract {kv.get('id')} without //@end")
                self.extract(kv, opts, blocks)
                i = j + 1
            elif s.startswith("//@fragment "):
                kv = parse_kv(s[len("//@fragment "):])
                j = i + 1
                hdr = []
                while j < len(lines) and not lines[j].strip().startswith("//@end"):
                    hdr.append(lines[j])
                    j += 1
                self.fragment(kv, hdr)
                i = j + 1
            elif s.startswith("//@implicit "):
                kv = parse_kv(s[len("//@implicit "):])
                self.implicit_ok.add((kv["file"], kv["trait"], kv["type"]))
                i += 1
            elif s.startswith("//@uncovered "):
                kv = parse_kv(s[len("//@uncovered "):])
                self.trait_cover_ok.setdefault((kv["file"], kv["path"]), set()).update(x.strip() for x in kv["fns"].split(","))
                i += 1
            elif s.startswith("//@expect "):
                # N27: the template transcribes a declaration that lives inside a macro invocation; the transcription is
                # only valid while the source still contains exactly this token sequence (once)
                kv = parse_kv(s[len("//@expect "):])
                if kv.get("dep"):
                    # the text of a DEPENDENCY (the version Cargo.lock pins, from cargo's registry source): a transcription of
                    # it in a rule of this tool (N30 alt, N31 separated) is only valid while the dependency still reads so
                    kv["file"] = self.dep_file(kv["dep"], kv["file"])
                _, toks = self.src(kv["file"])
                ms = find_pattern(pieces_from(toks, 0, len(toks)), kv["tokens"])
                if len(ms) != 1:
                    raise ExtractError(f"//@expect {kv.get('id', '')}: the transcribed declaration no longer matches {kv['file']} "
                                       f"({len(ms)} matches of its token sequence)")
                self.applied.add("N27", kv["file"], 0, "transcribed declaration checked: " + kv["tokens"][:60])
                i += 1
            elif s.startswith("//@"):
                raise ExtractError(f"unknown directive: {s}")
            else:
                self.emit(ln, {"k": "tmpl"})
                i += 1

    def check_trait_impl_coverage(self):
        """A trait impl from which methods are under contract must have ALL its methods under contract: a method that
        is added to such an impl overrides a provided default of the trait (e.g. `is_human_readable`, `collect_str`)
        and changes behaviour without touching any function the contracts mention."""
        for (file, impl_part), names in self.trait_cover.items():
            _, toks = self.src(file)
            loc = locate(toks, impl_part)
            k, ob, end = loc["impl"]
            ci = loc["ci"]
            have = {it[1] for it in _items_in(toks, ci, ob + 1, end) if it[0] == "fn"}
            missing = have - names - self.trait_cover_ok.get((file, impl_part), set())
            if missing:
                raise ExtractError(f"{file}: `{impl_part}` has method(s) not under contract: {', '.join(sorted(missing))} "
                                   f"(every method of a trait impl under contract must be; a new one overrides a trait default)")

    def check_implicit_impls(self):
        """`impl Drop for X` (likewise Deref / DerefMut) runs implicitly - when a value goes out of scope, at every `*x` -
        without being called from any function a contract mentions.  The files under contract have none today; one that
        appears (seed C19g: a Drop for the smol write half that shuts the shared socket down) makes the unit UNDECIDED."""
        for file, (text, toks) in self._src_cache.items():
            if os.path.isabs(file):
                continue    # a dependency's file looked at by `//@expect dep=`: none of its items is under contract here
            code_toks = [t for t in toks if t.kind not in ("ws", "lcomment", "bcomment")]
            for k, t in enumerate(code_toks):
                if t.kind == "ident" and t.text == "impl":
                    hdr = []
                    j = k + 1
                    while j < len(code_toks) and code_toks[j].text not in ("{", ";") and j < k + 60:
                        hdr.append(code_toks[j].text)
                        j += 1
                    for tr in ("Drop", "Deref", "DerefMut"):
                        if tr in hdr and "for" in hdr and hdr.index(tr) < len(hdr) - 1 and hdr[hdr.index(tr) + 1] == "for":
                            who = " ".join(hdr[hdr.index("for") + 1:])[:60]
                            if (file, tr, who.split("<")[0].strip()) not in self.implicit_ok:
                                raise ExtractError(f"{file}:{t.line}: `impl {tr} for {who}` is not under contract "
                                                   f"(it runs implicitly; no contract of this unit accounts for it)")

    def n36_inline_consts(self, pieces, file):
        """N36: an identifier that names a module-level `const NAME: T = E;` of the same source file which the template neither
        declares nor extracts is replaced by `((E) as T)` (E treated the same way, to depth 4).  A constant IS the value of its
        initialiser, so this is the same program; it needs no place in the generated file's module tree.  (Before this rule
        a literal replaced by a new named constant - an everyday edit, and what several seeded changes contain - made the
        unit UNDECIDED.)  `static` items are left alone (they have an address)."""
        # constants of this file, and - for names this file imports with a `use` - of the module files above it
        # (`<dir>/mod.rs`, `<parent>/mod.rs`, the crate's `lib.rs`): a constant added next to BUFFER_SIZE in connection/mod.rs and
        # imported by read_connection.rs is as much a value as a local one (seed C17h)
        text0, toks0 = self.src(file)
        used_names = set(re.findall(r"\b[A-Z][A-Z0-9_]+\b", " ".join(re.findall(r"\buse\s+[^;]+;", text0))))
        cands = [file]
        d = os.path.dirname(file)
        for up in (os.path.join(d, "mod.rs"), os.path.join(os.path.dirname(d), "mod.rs"), os.path.join(file.split("/src/")[0], "src", "lib.rs") if "/src/" in file else None):
            if up and up != file and up not in cands and os.path.exists(os.path.join(self.repo, up)):
                cands.append(up)
        top = {}
        for cf in cands:
            _, ctoks = self.src(cf)
            cci = _code_index(ctoks)
            for it in _items_in(ctoks, cci, 0, len(cci)):
                if it[0] == "const" and it[1] not in top and (cf == file or it[1] in used_names):
                    top[it[1]] = (it, ctoks, cci)

        def known(nm):
            return re.search(r"\b(const|static)\s+(mut\s+)?" + re.escape(nm) + r"\b", self._template_text) is not None

        def expansion(nm, depth):
            it, toks, ci = top[nm]
            a, b = ci[it[2]], ci[it[3] - 1] + 1
            code_t = [t for t in toks[a:b] if t.kind not in ("ws", "lcomment", "bcomment")]
            texts = [t.text for t in code_t]
            if ":" not in texts or "=" not in texts or texts[-1] != ";":
                raise ExtractError(f"N36: cannot split `const {nm}` into type and initialiser")
            k0 = texts.index(nm)
            c = texts.index(":", k0)
            e = texts.index("=", c)
            ty = " ".join(texts[c + 1:e])
            out = []
            for t in code_t[e + 1:-1]:
                if t.kind == "ident" and t.text in top and t.text != nm and not known(t.text):
                    if depth >= 4:
                        raise ExtractError(f"N36: constants nested too deeply at `{nm}`")
                    x = expansion(t.text, depth + 1)
                    out.append(x[1] if isinstance(x, tuple) else x)
                else:
                    out.append(t.text)
            if ty.startswith("&") and len(out) == 1 and len(code_t[e + 1:-1]) == 1 and code_t[e + 1].kind == "str":
                return ("LITERAL", out[0])       # a single literal (e.g. a byte-string constant): exactly the literal it names
            if ty.startswith("&"):
                return f"({' '.join(out)})"      # a reference (e.g. a byte-string constant): Verus rejects the identity cast; the use site coerces
            return f"(({' '.join(out)}) as {ty})"

        for p in pieces:
            if not p.dead and p.tkind == "ident" and re.fullmatch(r"[A-Z][A-Z0-9_]+", p.text) and p.text in top and not known(p.text):
                nm = p.text
                x = expansion(nm, 0)
                p.kind = "rw"
                if isinstance(x, tuple):
                    p.text, p.tkind = x[1], "str"
                else:
                    p.text, p.tkind = x, "rwtext"
                self.applied.add("N36", file, p.line, f"`{nm}`: module-level const unknown to the template, replaced by its initialiser {p.text}")

    def emit_impl_header(self, kv):
        file = kv["file"]
        _, toks = self.src(file)
        loc = locate(toks, kv["path"])
        if loc["kind"] != "impl":
            raise ExtractError(f"{kv['path']} is not an impl")
        ci = loc["ci"]
        k, ob, end = loc["impl"]
        pieces = pieces_from(toks, ci[k], ci[ob] + 1)
        for rw in kv.get("rewrites", []):
            pass
        text = "".join(p.text for p in pieces)
        if "as_inherent" in kv:
            # N6: `impl<..> Trait for T` -> `impl<..> T`
            m = re.match(r"(impl\s*(?:<[^{]*?>)?\s*)([\w:]+(?:<[^{]*?>)?)\s+for\s+(.*)$", text, re.S)
            if not m:
                raise ExtractError(f"N6: cannot parse trait impl header {text!r}")
            text = m.group(1) + m.group(3)
            self.applied.add("N6", file, toks[ci[k]].line, f"trait impl `{kv['path']}` emitted as inherent impl")
        self.emit(text, {"k": "src", "file": file, "line": toks[ci[k]].line})

    def extract(self, kv, opts, blocks):
        file, path, iid = kv["file"], kv["path"], kv["id"]
        tags = tuple(kv.get("tags", "").split(",")) if kv.get("tags") else ()
        src_text, toks = self.src(file)
        try:
            loc = locate(toks, path)
        except ExtractError as e:
            if kv.get("optional") and "item not found" in str(e):
                return      # `optional=1`: a contract for an item the source may or may not define (e.g. a trait method with a default)
            raise
        parts = [x.strip() for x in path.split("/")]
        if len(parts) >= 2 and parts[-2].startswith("impl ") and " for " in parts[-2] and parts[-1].startswith("fn "):
            # (also for impls nested in function bodies: `.../fn visit_map/impl MapAccess for FilterMap/fn next_key_seed` -
            # seed C05g added `next_entry_seed` to such an impl and went unseen while only two-part paths were covered)
            self.trait_cover.setdefault((file, "/".join(parts[:-1])), set()).add(parts[-1][3:].strip())
        ci = loc["ci"]
        a, b = ci[loc["start"]], ci[loc["end"] - 1] + 1
        item_src = src_text[toks[a].pos: toks[b - 1].pos + len(toks[b - 1].text)]
        sha = hashlib.sha256(item_src.encode()).hexdigest()
        pieces = pieces_from(toks, a, b)
        first_line = toks[a].line
        n3_attrs_and_vis(pieces, file, self.applied, opts.get("keepderive"))
        awaits = []
        if loc["kind"] == "fn":
            awaits = n1_async(pieces, file, self.applied)
            n2_logging(pieces, file, self.applied)
        if loc["kind"] == "fn":
            n32_canonical_loops(pieces, file, self.applied)
            n37_unnegate_if(pieces, file, self.applied)
            n38_while_let(pieces, file, self.applied)
        for (nm, pat) in opts.get("locals", []):
            n33_canonical_local(pieces, nm, pat, file, self.applied)
        if "params" in opts and loc["kind"] == "fn":
            n33_params(pieces, opts["params"], file, self.applied)
        if loc["kind"] == "fn" and not opts.get("trusted"):
            self.n36_inline_consts(pieces, file)      # before the literal rules, so that a constant's literal is treated like any other
        if opts.get("n19"):
            n19_byte_strings(pieces, file, self.applied)
        if opts.get("n29"):
            n29_select_biased(pieces, file, self.applied)
        if opts.get("n30"):
            n30_alt(pieces, file, self.applied)
        if opts.get("n31"):
            n31_separated(pieces, file, self.applied)
        if "n34" in opts:
            n34_format_macros(pieces, opts["n34"], file, self.applied)
        for (rule, pat, rep, count) in opts["rewrites"]:
            apply_rewrite(pieces, rule, pat, rep, count, file, self.applied)
        if opts.get("n5"):
            n5_monomorphise(pieces, opts["n5"], file, self.applied)
        for nm in opts.get("n12", []):
            n12_break_value(pieces, nm, file, self.applied)
        if opts.get("n17"):
            n17_mut_self(pieces, file, self.applied)
        if opts.get("pubfields"):
            n3_pubfields(pieces, file, self.applied)
        inj = {}   # piece index -> list of (position 'before'|'after', text, clause info)

        def add_inj(idx, pos, block_lines, default_id):
            inj.setdefault((idx, pos), []).append((block_lines, default_id))

        loops_info = []
        if loc["kind"] == "fn":
            has_spec = any(bk.where == "spec" for bk in blocks)
            body_k = name_return(pieces, file) if has_spec or opts.get("trusted") else None
            si = sig(pieces)
            if body_k is None:
                # find body
                depth = 0
                for k, i in enumerate(si):
                    t = pieces[i]
                    if t.tkind == "punct" and t.text in "([":
                        depth += 1
                    elif t.tkind == "punct" and t.text in ")]":
                        depth -= 1
                    elif depth == 0 and t.text == "{" and t.tkind == "punct":
                        body_k = k
                        break
            body_open = si[body_k]
            body_close = si[_pmatch(pieces, si, body_k, None)]
            loops, si = loops_of(pieces, body_k)
            loops_info = loops
            cancel_block = None
            if self.lenient:
                # if any aid of this item has lost its place, drop ALL its hint blocks (they may mention locals
                # or ghosts that are gone) and keep only the contract, the cancel clause and loop blocks that
                # still have a loop; the contract decides
                def _lost(bk):
                    w = bk.where
                    if w.startswith("loop "):
                        return int(w.split()[1]) > len(loops)
                    m = re.match(r"at loop(\d+)\.", w)
                    if m:
                        return int(m.group(1)) > len(loops)
                    if w.startswith("before ") or w.startswith("after "):
                        if re.search(r'\s#last(\s+opt)?$', w):
                            m = re.match(r'\S+\s+"((?:[^"\\]|\\.)*)"', w)
                            a_s = m.group(1).replace('\\"', '"').replace("\\\\", "\\")
                            return len([x for x in find_pattern(pieces, a_s) if x[3][x[0]] >= body_open]) == 0
                        m = re.match(r'\S+\s+"((?:[^"\\]|\\.)*)"(?:\s+#(\d+)of(\d+))?(\s+opt)?$', w)
                        if not m or m.group(4):
                            return False
                        a_s = m.group(1).replace('\\"', '"').replace("\\\\", "\\")
                        n = len([x for x in find_pattern(pieces, a_s) if x[3][x[0]] >= body_open])
                        return n != (int(m.group(3)) if m.group(2) else 1)
                    return False
                lost_here = [bk.where for bk in blocks if _lost(bk)]
                if lost_here:
                    self.lost_aids += [f"{iid}: {w}" for w in lost_here]
                    blocks = [bk for bk in blocks if bk.where in ("spec", "cancel")
                              or (bk.where.startswith("loop ") and int(bk.where.split()[1]) <= len(loops))]
                    self.lost_aids.append(f"{iid}: all hint blocks dropped")
            for bk in blocks:
                w = bk.where
                if w == "spec":
                    add_inj(body_open, "before", bk.lines, f"{iid}.spec")
                elif w.startswith("loop "):
                    K = int(w.split()[1])
                    if K > len(loops):
                        if self.lenient:
                            self.lost_aids.append(f"{iid}: loop {K} (function has {len(loops)} loops)")
                            continue
                        raise LostAid(f"{iid}: loop {K} not found ({len(loops)} loops in {path})")
                    add_inj(si[loops[K - 1][1]], "before", bk.lines, f"{iid}.loop{K}")
                elif w.startswith("at "):
                    tgt = w[3:].strip()
                    if tgt == "fn.start":
                        add_inj(body_open, "after", bk.lines, f"{iid}.hint.fnstart")
                    elif tgt == "fn.end":
                        add_inj(body_close, "before", bk.lines, f"{iid}.hint.fnend")
                    else:
                        m = re.match(r"loop(\d+)\.(start|end)$", tgt)
                        if not m:
                            raise ExtractError(f"{iid}: bad position {tgt}")
                        K = int(m.group(1))
                        if K > len(loops):
                            if self.lenient:
                                self.lost_aids.append(f"{iid}: position {tgt}")
                                continue
                            raise LostAid(f"{iid}: loop {K} not found")
                        if m.group(2) == "start":
                            add_inj(si[loops[K - 1][1]], "after", bk.lines, f"{iid}.hint.loop{K}start")
                        else:
                            add_inj(si[loops[K - 1][2]], "before", bk.lines, f"{iid}.hint.loop{K}end")
                elif w.startswith("before ") or w.startswith("after "):
                    pos, _, anchor = w.partition(" ")
                    anchor = anchor.strip()
                    want_last = bool(re.search(r'\s#last(\s+opt)?$', anchor))
                    if want_last:
                        anchor = re.sub(r'\s#last', '', anchor)
                    m = re.match(r'"((?:[^"\\]|\\.)*)"(?:\s+#(\d+)of(\d+))?(?:\s+opt)?$', anchor)
                    if not m:
                        raise ExtractError(f"{iid}: bad anchor {anchor}")
                    optional = anchor.endswith(" opt")
                    a_s = m.group(1).replace('\\"', '"').replace("\\\\", "\\")
                    ms = [x for x in find_pattern(pieces, a_s) if x[3][x[0]] >= body_open]
                    if want_last and ms:
                        ms = [ms[-1]]       # `#last`: the last occurrence, however many there are (e.g. the tail expression)
                    if m.group(2):
                        # `#KofN`: the K-th of exactly N occurrences
                        if len(ms) != int(m.group(3)):
                            if self.lenient:
                                self.lost_aids.append(f"{iid}: anchor {a_s!r} #{m.group(2)}of{m.group(3)} (matches {len(ms)} times)")
                                continue
                            raise LostAid(f"{iid}: lost anchor {a_s!r} (matches {len(ms)} times, expected {m.group(3)})")
                        ms = [ms[int(m.group(2)) - 1]]
                    if len(ms) != 1:
                        if optional and not ms:
                            continue
                        if self.lenient:
                            self.lost_aids.append(f"{iid}: anchor {a_s!r} (matches {len(ms)} times)")
                            continue
                        raise LostAid(f"{iid}: lost anchor {a_s!r} (matches {len(ms)} times)")
                    k0, e0, _, si2 = ms[0]
                    if pos == "before":
                        add_inj(si2[k0], "before", bk.lines, f"{iid}.hint")
                    else:
                        add_inj(si2[e0 - 1], "after", bk.lines, f"{iid}.hint")
                elif w == "cancel":
                    cancel_block = bk
                else:
                    raise ExtractError(f"{iid}: unknown block {w}")
            # rewrites / N29 / N17 insert pieces: locate the cancel points by their marks, not by the indices N1 saw
            awaits = [i for i, pc in enumerate(pieces) if pc.mark == "await"]
            if awaits and not opts.get("trusted"):
                if cancel_block is None:
                    raise ExtractError(f"{iid}: function has {len(awaits)} await(s) but no cancel block "
                                       f"(write `//@ cancel` with `true` to state that none is claimed)")
                si = sig(pieces)
                for n, aw in enumerate(awaits, 1):
                    # position: the significant token just before the removed `.await`
                    k = max(x for x in range(len(si)) if si[x] < aw)
                    ss = stmt_start(pieces, si, k, body_k + 1)
                    arm = ss < 0
                    ss = abs(ss)
                    if not arm:
                        # `let b = &mut self.x[..]; f(b).await` : the assertion mentions `self`, which the borrow `b` still
                        # holds; creating a borrow changes no state, so the cancel point's assertion may stand in front of it
                        while True:
                            ps = stmt_start(pieces, si, ss - 1, body_k + 1) if ss - 1 > body_k + 1 else -1
                            if ps < 0 or ps >= ss:
                                break
                            toks = [pieces[si[x]].text for x in range(ps, ss)]
                            if len(toks) >= 6 and toks[0] == "let" and toks[2] == "=" and toks[3] == "&" and toks[-1] == ";" \
                                    and toks[1] in [pieces[si[x]].text for x in range(ss, k + 1)] \
                                    and not any(t in ("(", "await", "?") for t in toks[4:] if t == "await" or t == "?"):
                                ss = ps
                            else:
                                break
                    # one assertion per `//#`-marked group of lines of the cancel block (usually one): separate ids and tags for
                    # separate claims about the state at a suspension point (e.g. the buffer bound, C17, next to cancel safety, C07)
                    groups, cur_g = [], []
                    for l in cancel_block.lines:
                        if not l.strip():
                            continue
                        cur_g.append(l)
                        if CLAUSE_RE.search(l):
                            groups.append(cur_g)
                            cur_g = []
                    if cur_g:
                        groups.append(cur_g)
                    expr_lines = []
                    for gl in groups:
                        gb = Block("cancel", gl)
                        expr = " ".join(CLAUSE_RE.sub("", l).strip() for l in gl).strip()
                        cname = _cancel_name(gb) or f"{iid}.cancel"
                        gt = _cancel_tags(gb, tags)
                        expr_lines.append(f"        assert({expr}); //# {cname}.{n}" + (f" tags={','.join(gt)}" if gt else ""))
                    cname = _cancel_name(cancel_block) or f"{iid}.cancel"
                    if arm:
                        expr_lines = ["        {"] + expr_lines
                        add_inj(si[arm_end(pieces, si, ss)], "after", ["        }"], f"{cname}.{n}")
                    add_inj(si[ss], "before", expr_lines, f"{iid}.cancel.{n}")
            elif any(bk.where == "cancel" for bk in blocks):
                pass  # a cancel clause without awaits is harmless
            if self.canary and not opts.get("trusted"):
                si = sig(pieces)

                def add_canary(idx, pos, where):
                    n = len(self.canaries) + 1
                    self.canaries.append({"id": f"CANARY.{n}", "item": iid, "where": where})
                    add_inj(idx, pos, [f"        assert(vcanary({n})); //# CANARY.{n}"], f"CANARY.{n}")
                add_canary(body_open, "after", "fn entry")
                for K, lp in enumerate(loops_info, 1):
                    add_canary(si[lp[1]], "after", f"loop {K} body entry")
                    # after the loop (code following it must be reachable unless the loop never exits)
                for n, aw in enumerate(awaits, 1):
                    k = max(x for x in range(len(si)) if si[x] < aw)
                    ss = stmt_start(pieces, si, k, body_k + 1)
                    if ss >= 0:
                        add_canary(si[ss], "before", f"cancel point {n}")
            if opts.get("trusted"):
                kill(pieces, range(body_open, body_close + 1))
                pieces[body_open] = Piece("{ unimplemented!() }", "rw", pieces[body_open].line, rule="TRUSTED", tkind="rwtext")
                pieces.insert(0, Piece("#[verifier::external_body]\n", "rw", first_line, rule="TRUSTED", tkind="attr"))
                self.applied.add("TRUSTED", file, first_line, f"body of {path} not verified; its contract is assumed")
                # only the contract survives; indices shifted by one
                inj = {(k[0] + 1, k[1]): v for k, v in inj.items() if k == (body_open, "before")}
        elif loc["kind"] == "static" and opts.get("n8"):
            # N8: `static X: T = INIT;` -> `exec static X: T <ensures> { INIT }`
            si = sig(pieces)
            eq = next(k for k, i in enumerate(si) if pieces[i].text == "=" and pieces[i].tkind == "punct")
            semi = len(si) - 1
            if pieces[si[semi]].text != ";":
                raise ExtractError(f"{iid}: N8: static does not end in `;`")
            st = next(k for k, i in enumerate(si) if pieces[i].text == "static")
            pieces[si[st]] = Piece("exec static", "rw", pieces[si[st]].line, rule="N8", tkind="rwtext")
            pieces[si[eq]] = Piece("{", "rw", pieces[si[eq]].line, rule="N8", tkind="punct")
            pieces[si[semi]] = Piece("}", "rw", pieces[si[semi]].line, rule="N8", tkind="punct")
            for bk in blocks:
                if bk.where != "spec":
                    raise ExtractError(f"{iid}: only a spec block is supported on a static")
                add_inj(si[eq], "before", bk.lines, f"{iid}.spec")
            self.applied.add("N8", file, first_line, "static -> exec static with ensures; initialiser tokens unchanged")
        else:
            for bk in blocks:
                raise ExtractError(f"{iid}: blocks are only supported on fn items (got {bk.where} on {loc['kind']})")

        if opts.get("rename"):
            # rename the item (used when two impls define the same method name and are emitted inherent)
            si = sig(pieces)
            for k, i in enumerate(si):
                if pieces[i].text == loc["kind"] and pieces[si[k + 1]].text == loc["name"]:
                    pieces[si[k + 1]] = Piece(opts["rename"], "rw", pieces[si[k + 1]].line, rule="RENAME", tkind="ident")
                    self.applied.add("RENAME", file, pieces[si[k + 1]].line, f"{loc['name']} -> {opts['rename']}")
                    break

        # ---- render
        gen_start = len(self.out) + 1
        if opts.get("prefix"):
            self.out.append((opts["prefix"] + f" /*@{iid}.attr*/", {"k": "inj", "clause": f"{iid}.attr", "tags": list(tags), "item": iid}))
        buf = ""
        cur_line_info = {"k": "src", "file": file, "line": first_line}

        def flush_text(text, info):
            # append text to output keeping a per-line map
            nonlocal buf
            parts = text.split("\n")
            for n, part in enumerate(parts):
                if n > 0:
                    self.out.append((buf, dict(self._lineinfo)))
                    buf = ""
                    self._lineinfo = dict(info)
                if part and self._lineinfo.get("k") != "inj":
                    # prefer src info over tmpl
                    if info.get("k") == "inj" or self._lineinfo.get("k") is None:
                        self._lineinfo = dict(info)
                    elif info.get("k") == "src" and self._lineinfo.get("k") != "src":
                        self._lineinfo = dict(info)
                buf += part

        self._lineinfo = {}

        def render_inj(lst, indent="    "):
            nonlocal buf
            for (block_lines, default_id) in lst:
                cid, ctags = default_id, tags
                # strip common leading blank lines
                bl = list(block_lines)
                while bl and not bl[-1].strip():
                    bl.pop()
                while bl and not bl[0].strip():
                    bl.pop(0)
                if buf.strip():
                    self.out.append((buf, dict(self._lineinfo)))
                    buf = ""
                elif buf:
                    buf = ""
                # a `//# ID` marker closes a clause: it names its own line and the unmarked lines above it
                ids = [None] * len(bl)
                nxt = (default_id, tags)
                for n in range(len(bl) - 1, -1, -1):
                    m = CLAUSE_RE.search(bl[n])
                    if m:
                        nxt = (m.group(1), tuple(m.group(2).split(",")) if m.group(2) else tags)
                        bl[n] = bl[n][:m.start()].rstrip()
                    ids[n] = nxt
                for l, (cid, ctags) in zip(bl, ids):
                    c = self.clauses.setdefault(cid, {"tags": list(ctags), "text": "", "item": iid, "fn": path, "file": file})
                    c["text"] = (c["text"] + " " + l.strip()).strip()
                    self.out.append((l + f" /*@{cid}*/", {"k": "inj", "clause": cid, "tags": list(ctags), "item": iid}))
                self._lineinfo = {}

        for idx, p in enumerate(pieces):
            if (idx, "before") in inj:
                render_inj(inj[(idx, "before")])
            if not p.dead:
                flush_text(p.text, {"k": "src", "file": file, "line": p.line} if p.kind in ("src", "rw") else {"k": "tmpl"})
            if (idx, "after") in inj:
                render_inj(inj[(idx, "after")])
        if buf:
            self.out.append((buf, dict(self._lineinfo)))
        gen_end = len(self.out)
        norm_tokens = [p.text for p in pieces if not p.dead and p.tkind not in ("ws", "lcomment", "bcomment")]
        self.items.append({
            "id": iid, "file": file, "path": path, "kind": loc["kind"], "line": first_line, "sha256": sha,
            "tags": list(tags), "trusted": bool(opts.get("trusted")), "gen_lines": [gen_start, gen_end],
            "awaits": len(awaits), "loops": len(loops_info),
            "norm_sha": hashlib.sha256(" ".join(norm_tokens).encode()).hexdigest(),
            "name": loc["name"], "emitted_name": opts.get("rename") or loc["name"],
        })
        self._fidelity(iid, gen_start, gen_end, norm_tokens)

    def fragment(self, kv, hdr):
        """N11: the statements of a function between two anchors become the body of a function whose
        header (signature + contract) is given in the template."""
        file, path, iid = kv["file"], kv["path"], kv["id"]
        tags = tuple(kv.get("tags", "").split(",")) if kv.get("tags") else ()
        src_text, toks = self.src(file)
        loc = locate(toks, path)
        ci = loc["ci"]
        a, b = ci[loc["start"]], ci[loc["end"] - 1] + 1
        pieces = pieces_from(toks, a, b)
        n3_attrs_and_vis(pieces, file, self.applied)
        n2_logging(pieces, file, self.applied)
        footer = []
        if any(l.strip() == "//@ body" for l in hdr):
            k = next(i for i, l in enumerate(hdr) if l.strip() == "//@ body")
            hdr, footer = hdr[:k], hdr[k + 1:]
        pre = []
        if any(l.strip() == "//@ pre" for l in hdr):
            k = next(i for i, l in enumerate(hdr) if l.strip() == "//@ pre")
            hdr, pre = hdr[:k], hdr[k + 1:]
        if "match" in kv:
            f = find_pattern(pieces, kv["match"])
            if len(f) != 1:
                raise ExtractError(f"{iid}: fragment pattern must match exactly once (matches {len(f)} times)")
            si = f[0][3]
            lo, hi = si[f[0][0]], si[f[0][1] - 1] + 1
            kv = dict(kv, **{"from": kv["match"], "to": "(end of match)"})
        elif kv.get("to") == "@enclosing_end":
            # from the anchor to the end of the innermost block that contains it (its closing brace excluded)
            f = find_pattern(pieces, kv["from"])
            if len(f) != 1:
                raise ExtractError(f"{iid}: fragment anchor must match exactly once (matches {len(f)} times)")
            si = f[0][3]
            depth = 0
            end = None
            for k in range(f[0][0], len(si)):
                t = pieces[si[k]]
                if t.tkind == "punct" and t.text in OPEN:
                    depth += 1
                elif t.tkind == "punct" and t.text in CLOSE:
                    depth -= 1
                    if depth < 0:
                        end = k
                        break
            if end is None:
                raise ExtractError(f"{iid}: no enclosing block end after the anchor")
            lo, hi = si[f[0][0]], si[end]
        else:
            f = find_pattern(pieces, kv["from"])
            t = find_pattern(pieces, kv["to"])
            if len(f) != 1 or len(t) != 1:
                raise ExtractError(f"{iid}: fragment anchors must match exactly once (from: {len(f)}, to: {len(t)})")
            si = f[0][3]
            lo, hi = si[f[0][0]], si[t[0][0] + int(kv.get("skip", 0))]
        if lo >= hi:
            raise ExtractError(f"{iid}: fragment anchors out of order")
        frag = [p for p in pieces[lo:hi]]
        item_src = "".join(p.text for p in frag)
        n1_async(frag, file, self.applied)   # `.await` inside the fragment (no cancel claim is attached to fragments)
        rws = [l for l in hdr if l.strip().startswith("//@ rewrite ")]
        hdr = [l for l in hdr if not l.strip().startswith("//@ rewrite ")]
        for l in rws:
            m = re.match(r'//@ rewrite\s+(\S+)\s+"((?:[^"\\]|\\.)*)"\s*=>\s*"((?:[^"\\]|\\.)*)"(?:\s+count=(\S+))?', l.strip())
            if not m:
                raise ExtractError(f"{iid}: bad rewrite in fragment: {l}")
            apply_rewrite(frag, m.group(1), m.group(2), m.group(3), m.group(4) or "1", file, self.applied)
        sha = hashlib.sha256(item_src.encode()).hexdigest()
        first_line = pieces[lo].line
        gen_start = len(self.out) + 1
        cid, ctags = f"{iid}.spec", tags
        bl = list(hdr)
        ids = [None] * len(bl)
        nxt = (cid, tags)
        for n in range(len(bl) - 1, -1, -1):
            m = CLAUSE_RE.search(bl[n])
            if m:
                nxt = (m.group(1), tuple(m.group(2).split(",")) if m.group(2) else tags)
                bl[n] = bl[n][:m.start()].rstrip()
            ids[n] = nxt
        for l, (c, ct) in zip(bl, ids):
            cl = self.clauses.setdefault(c, {"tags": list(ct), "text": "", "item": iid, "fn": path + " (fragment)", "file": file})
            cl["text"] = (cl["text"] + " " + l.strip()).strip()
            self.out.append((l + f" /*@{c}*/", {"k": "inj", "clause": c, "tags": list(ct), "item": iid}))
        self.out.append(("{ /*@N11 fragment start*/", {"k": "inj", "clause": f"{iid}.frame", "tags": list(tags), "item": iid}))
        if self.canary:
            n = len(self.canaries) + 1
            self.canaries.append({"id": f"CANARY.{n}", "item": iid, "where": "fragment entry"})
            self.out.append((f"        assert(vcanary({n})); /*@CANARY.{n}*/", {"k": "inj", "clause": f"CANARY.{n}", "tags": list(tags), "item": iid}))
        for l in pre:
            self.out.append((l + f" /*@{iid}.frame*/", {"k": "inj", "clause": f"{iid}.frame", "tags": list(tags), "item": iid}))
        buf = ""
        line = first_line
        info = {"k": "src", "file": file, "line": line}
        for p in frag:
            if p.dead:
                continue
            parts = p.text.split("\n")
            for n, part in enumerate(parts):
                if n > 0:
                    self.out.append((buf, {"k": "src", "file": file, "line": line}))
                    buf = ""
                    line = p.line + n
                if part.strip() and not buf.strip():
                    line = p.line + n
                buf += part
        if buf.strip():
            self.out.append((buf, {"k": "src", "file": file, "line": line}))
        for l in footer:
            self.out.append((l + f" /*@{iid}.frame*/", {"k": "inj", "clause": f"{iid}.frame", "tags": list(tags), "item": iid}))
        self.out.append(("} /*@N11 fragment end*/", {"k": "inj", "clause": f"{iid}.frame", "tags": list(tags), "item": iid}))
        gen_end = len(self.out)
        norm_tokens = [p.text for p in frag if not p.dead and p.tkind not in ("ws", "lcomment", "bcomment")]
        name = kv.get("name", iid)
        self.applied.add("N11", file, first_line, f"fragment of {path} between `{kv['from']}` and `{kv['to']}` emitted as fn {name}")
        self.items.append({"id": iid, "file": file, "path": path + " (fragment)", "kind": "fn", "line": first_line, "sha256": sha,
                           "tags": list(tags), "trusted": False, "gen_lines": [gen_start, gen_end], "awaits": 0, "loops": 0,
                           "norm_sha": hashlib.sha256(" ".join(norm_tokens).encode()).hexdigest(), "name": name})
        self._fidelity(iid, gen_start, gen_end, norm_tokens)

    def _fidelity(self, iid, gs, ge, norm_tokens):
        """Independent path: re-lex the generated lines, drop lines that the map says are injected,
        compare significant tokens with the normalised source tokens."""
        txt = "\n".join(l for (l, info) in self.out[gs - 1:ge] if info.get("k") != "inj")
        try:
            got = [t.text for t in code(lex(txt))]
        except LexError as e:
            raise ExtractError(f"fidelity: cannot re-lex generated {iid}: {e}")
        want = []
        for t in norm_tokens:
            want += [x.text for x in code(lex(t))]
        if "".join(got) == "".join(want):
            return   # token boundaries may differ where rewritten text meets source (`>` `>` vs `>>`)
        if got != want:
            for n, (g, w) in enumerate(zip(got, want)):
                if g != w:
                    raise ExtractError(f"fidelity check failed for {iid} at token {n}: generated {g!r} vs source {w!r}")
            raise ExtractError(f"fidelity check failed for {iid}: token count {len(got)} vs {len(want)}")

    def result(self):
        if self.canary:
            self.emit("verus! { pub uninterp spec fn vcanary(n: int) -> bool; }", {"k": "tmpl"})
        text = "\n".join(l for (l, _) in self.out) + "\n"
        linemap = [info for (_, info) in self.out]
        return text, linemap


def _cancel_name(block):
    for l in block.lines:
        m = CLAUSE_RE.search(l)
        if m:
            return m.group(1)
    return None


def _cancel_tags(block, default):
    for l in block.lines:
        m = CLAUSE_RE.search(l)
        if m and m.group(2):
            return tuple(m.group(2).split(","))
    return default


def generate(repo, template, out_rs, out_map, canary=False, lenient=False):
    g = Generator(repo, template, canary=canary, lenient=lenient)
    g.run()
    g.check_trait_impl_coverage()
    g.check_implicit_impls()
    text, linemap = g.result()
    os.makedirs(os.path.dirname(out_rs), exist_ok=True)
    open(out_rs, "w").write(text)
    meta = {"template": template, "items": g.items, "rules": g.applied.rules, "clauses": g.clauses, "linemap": linemap,
            "canaries": g.canaries, "lost_aids": g.lost_aids}
    json.dump(meta, open(out_map, "w"))
    return meta


if __name__ == "__main__":
    repo, template, out_rs = sys.argv[1:4]
    try:
        meta = generate(repo, template, out_rs, out_rs + ".map.json")
    except ExtractError as e:
        print("UNDECIDED (extraction):", e)
        sys.exit(2)
    print(f"generated {out_rs}: {len(meta['items'])} items, {len(meta['rules'])} rule applications, {len(meta['clauses'])} clauses")
