"""Run Kani harness crates (real sources pulled in with #[path]); see DESIGN.md section 2."""


def run_unit(here, repo, unit, ucfg, tier, prop):
    raise NotImplementedError
