"""Run Kani harness crates (real sources pulled in with #[path]); see DESIGN.md section 2.

unit config (contracts/units.json):
  {"kind": "kani", "crate": "kani/select_all", "flags": [...],
   "harnesses": [{"name": "rotation_n3", "tiers": ["quick","thorough"], "tags": ["C18"], "bound": "n = 3 futures",
                  "complete": false, "real_fns": ["zlink-core/src/server/select_all.rs: SelectAll::poll"]} ...]}
"""
import os
import re
import shutil
import subprocess
import time
from concurrent.futures import ThreadPoolExecutor


def _run_harness(crate_dir, name, flags, timeout):
    t0 = time.time()
    cmd = ["cargo", "kani"] + flags + ["--harness", name]
    env = dict(os.environ, CARGO_NET_OFFLINE="true")
    try:
        p = subprocess.run(cmd, cwd=crate_dir, capture_output=True, text=True, env=env, timeout=timeout)
        out = p.stdout + "\n" + p.stderr
        rc = p.returncode
    except subprocess.TimeoutExpired as e:
        out = (e.stdout or b"").decode(errors="replace") if isinstance(e.stdout, bytes) else (e.stdout or "")
        out += "\nTIMEOUT"
        rc = -9
    return {"name": name, "cmd": " ".join(cmd), "out": out, "rc": rc, "wall_s": time.time() - t0}


CHECK_RE = re.compile(r"Check (\d+): (\S+)\n\s+- Status: (\w+)\n\s+- Description: \"(.*?)\"\n(?:\s+- Location: (.*?)\n)?", re.S)


def parse(out):
    checks = []
    for m in CHECK_RE.finditer(out):
        checks.append({"id": m.group(2), "status": m.group(3), "desc": m.group(4), "loc": (m.group(5) or "").strip()})
    m = re.search(r"\*\* (\d+) of (\d+) failed(?: \((\d+) unreachable\))?", out)
    summary = {"failed": int(m.group(1)), "total": int(m.group(2)), "unreachable": int(m.group(3) or 0)} if m else None
    covers = re.search(r"\*\* (\d+) of (\d+) cover properties satisfied", out)
    ok = "VERIFICATION:- SUCCESSFUL" in out
    failed = "VERIFICATION:- FAILED" in out
    cpb = None
    m = re.search(r"(let concrete_vals: Vec<Vec<u8>> = vec!\[.*?\];)", out, re.S)
    if m:
        cpb = m.group(1)
    return {"checks": checks, "summary": summary, "ok": ok, "failed": failed,
            "covers": (int(covers.group(1)), int(covers.group(2))) if covers else None, "playback": cpb}


def run_unit(here, repo, unit, ucfg, tier, prop):
    crate_dir = os.path.join(here, ucfg["crate"])
    lock = os.path.join(repo, "Cargo.lock")
    if ucfg.get("copy_lock", True) and os.path.exists(lock):
        shutil.copy(lock, os.path.join(crate_dir, "Cargo.lock"))
    flags = list(ucfg.get("flags", []))
    hs = [h for h in ucfg["harnesses"] if tier in h.get("tiers", ["quick", "thorough"]) and prop in h.get("tags", [prop])]
    res = {"cmds": [], "checks": 0, "undecided": [], "fails": [], "samples": [], "bounded": [], "fn_reports": [], "assumptions": []}
    if not hs:
        res["undecided"].append(f"no kani harness of unit {unit} is registered for tier {tier} and {prop}")
        return res
    # build once (serial) so that the parallel runs do not fight over the cargo lock while compiling
    first = _run_harness(crate_dir, hs[0]["name"], flags, ucfg.get("timeout_s", 1800))
    results = [first]
    if "error: could not compile" in first["out"] or "error[E" in first["out"]:
        res["undecided"].append(f"kani crate {ucfg['crate']} does not compile against the current tree: " + first["out"][-1500:])
        res["cmds"].append(first["cmd"])
        return res
    with ThreadPoolExecutor(max_workers=int(os.environ.get("KANI_JOBS", "6"))) as ex:
        futs = [ex.submit(_run_harness, crate_dir, h["name"], flags, ucfg.get("timeout_s", 1800)) for h in hs[1:]]
        results += [f.result() for f in futs]
    for h, r in zip(hs, results):
        res["cmds"].append(r["cmd"])
        p = parse(r["out"])
        tagged = [c for c in p["checks"] if re.search(r"\bU\d+\.", c["desc"])]
        rep = {"id": h["name"], "path": "; ".join(h.get("real_fns", [])), "backend": "kani/cbmc", "verified": p["ok"],
               "cbmc_checks": p["summary"]["total"] if p["summary"] else 0, "wall_s": round(r["wall_s"], 1),
               "bound": h.get("bound"), "complete_for_domain": h.get("complete", False), "tags": h.get("tags", [prop])}
        res["fn_reports"].append(rep)
        if h.get("bound"):
            res["bounded"].append(f"{h['name']}: {h['bound']}" + (" (complete for that domain: loop bound = operand width, unwinding assertions on)" if h.get("complete") else " (bounded stand-in, not counted as proved beyond the bound)"))
        if p["summary"] is None or not (p["ok"] or p["failed"]):
            res["undecided"].append(f"kani harness {h['name']} gave no verdict (rc={r['rc']}): " + r["out"][-800:])
            continue
        res["checks"] += p["summary"]["total"]
        # vacuity: every property-tagged assertion must be reachable
        unreach = [c for c in tagged if c["status"] == "UNREACHABLE"]
        if unreach and not h.get("allow_unreachable"):
            res["undecided"].append(f"vacuity: tagged assertions unreachable in {h['name']}: " + ", ".join(c["desc"][:60] for c in unreach[:4]))
        if not tagged:
            res["undecided"].append(f"vacuity: harness {h['name']} has no property-tagged assertion")
        if p["covers"] and p["covers"][0] != p["covers"][1]:
            res["undecided"].append(f"vacuity: cover properties unsatisfied in {h['name']}: {p['covers']}")
        for c in tagged[:3]:
            res["samples"].append({"obligation": f"{h['name']}: {c['desc'][:160]}", "status": c["status"]})
        if p["failed"]:
            bad = [c for c in p["checks"] if c["status"] == "FAILURE"]
            unwind = [c for c in bad if "unwinding assertion" in c["desc"]]
            if unwind and len(unwind) == len(bad):
                res["undecided"].append(f"kani harness {h['name']}: only unwinding assertions failed (loop bound too small for the current code)")
                continue
            for c in bad[:5]:
                m = re.search(r"\b(U\d+\.[A-Za-z0-9_.]+)", c["desc"])
                oid = f"{h['name']}:{m.group(1)}" if m else f"{h['name']}:safety:{c['id']}"
                res["fails"].append({"obligation": oid, "item": h["name"], "fn": "; ".join(h.get("real_fns", [])), "tags": h.get("tags", [prop]),
                                     "message": c["desc"], "repo_site": c["loc"], "gen_line": None,
                                     "rendered": f"Kani harness {h['name']}: FAILURE {c['id']}: {c['desc']} at {c['loc']}\n" + (p["playback"] or "")})
    res["assumptions"] += ucfg.get("assumptions", [])
    return res
