#!/usr/bin/env python3
"""Generates contracts/shared/flat_ser_methods.vrs: extract directives + contracts for every serde::Serializer method of
FlatSerializer (zlink-core/src/call/ser.rs) that refuses its input.  Run by hand; the output is committed."""
import os
F = "zlink-core/src/call/ser.rs"
IMPL = "impl Serializer for FlatSerializer"
refusing = """serialize_bool serialize_unit serialize_none serialize_some serialize_unit_struct serialize_unit_variant
serialize_struct_variant serialize_newtype_struct serialize_tuple serialize_tuple_struct serialize_tuple_variant
serialize_newtype_variant serialize_seq serialize_bytes serialize_u8 serialize_u16 serialize_u32 serialize_u64 serialize_u128
serialize_i8 serialize_i16 serialize_i32 serialize_i64 serialize_i128 serialize_f32 serialize_f64 serialize_char serialize_str collect_str""".split()
# return types that are associated types of the impl
ASSOC = {"serialize_struct_variant": "SerializeStructVariant", "serialize_tuple": "SerializeTuple", "serialize_tuple_struct": "SerializeTupleStruct",
         "serialize_tuple_variant": "SerializeTupleVariant", "serialize_seq": "SerializeSeq"}
GENERIC = {"serialize_some", "serialize_newtype_struct", "serialize_newtype_variant", "collect_str"}
out = []
for m in refusing:
    ret = ASSOC.get(m, "Ok")
    rw = f'//@ rewrite N6 "Result<Self::{ret}, Self::Error>" => "Result<{"Impossible" if m in ASSOC else "()"}, SerError>"\n'
    n5 = "//@ n5 M=OuterMap T=Val\n" if m in GENERIC else "//@ n5 M=OuterMap\n"
    if m == "serialize_bool":
        rw += '//@ rewrite N3 "(self, _: bool)" => "(self, _v: bool)"\n'
    out.append(f'''//@extract id=flat.{m} file={F} path="{IMPL}/fn {m}" tags=C05
{n5}{rw}//@ rewrite N6 "<M as SerializeMap>::Error::custom(ERR_MESSAGE)" => "custom_error(ERR_MESSAGE)"
//@ spec
        ensures
            // anything that is not a map or a struct cannot be flattened into the envelope: refused, envelope untouched
            r is Err && *final(self.0) == *old(self.0),   //# U10.flat.refuses.{m}
//@end
''')
p = os.path.join(os.path.dirname(os.path.dirname(os.path.abspath(__file__))), "shared", "flat_ser_methods.vrs")
open(p, "w").write("\n".join(out))
print("wrote", p, len(refusing), "methods")
