#!/usr/bin/env python3
"""Generates contracts/shared/json_ser_methods.vrs: the extract directives + contracts for the
serde::Serializer methods of `&mut Serializer`, of `MapKeySerializer`, and the Compound methods.
Run by hand when the table below changes; the output is committed."""
import os
F = "zlink-core/src/json_ser.rs"
SER = 'impl Serializer for Serializer'
KEY = 'impl Serializer for MapKeySerializer'
N5 = "//@ n5 F=CompactFormatter"
ints = ['i8', 'i16', 'i32', 'i64', 'i128', 'u8', 'u16', 'u32', 'u64', 'u128']
out = []

def ser_method(name, sig_rw, spec_ok, extra_err="", passthru=None, extra_rw=""):
    err = "r is Err ==> final(self).writer.keeps(&old(self).writer),"
    short = f"old(self).writer.out().len() + ({spec_ok}).len() > old(self).writer.cap()"
    if passthru:
        err += f"\n            r matches Err(Error::KeyMustBeAString) ==> !{passthru}.encodable(),"
        err += f"\n            r matches Err(Error::BufferTooSmall) ==> {short} || !{passthru}.encodable(),"
        okpre = f"{passthru}.encodable() && "
    else:
        err += "\n            r is Err ==> (r matches Err(Error::BufferTooSmall)),"
        err += f"\n            r is Err ==> {short},"
        okpre = ""
    out.append(f'''//@extract id=ser.{name} file={F} path="{SER}/fn {name}" tags=C03,C02
{N5}
{sig_rw}{extra_rw}//@ spec
        requires old(self).writer.wfw(),
        ensures
            r is Ok ==> {okpre}final(self).writer.appended(&old(self).writer, {spec_ok}),   //# U3.scalar.{name}
            {err}   //# U3.scalar.{name}.err
//@end
''')

SELF1 = '//@ rewrite N6 "(self," => "(&mut self,"\n'
SELF0 = '//@ rewrite N6 "(self)" => "(&mut self)"\n'
SELFN = '//@ rewrite N6 "( self," => "(&mut self,"\n'   # multi-line signatures: `(\n self,`
ser_method("serialize_bool", SELF1, "s_bool(value)")
for t in ints:
    ser_method(f"serialize_{t}", SELF1, "dec(value as int)")
ser_method("serialize_f32", SELF1, "enc_f32(value)")
ser_method("serialize_f64", SELF1, "enc_f64(value)")
ser_method("serialize_char", SELF1, "enc_str(utf8_of(value))")
ser_method("serialize_str", SELF1, "enc_str(value.spec_bytes())")
ser_method("serialize_bytes", SELF1, "enc_byte_array(value@)")
ser_method("serialize_unit", SELF0, "s_null()")
ser_method("serialize_unit_struct", SELF1, "s_null()")
ser_method("serialize_unit_variant", SELFN, "enc_str(variant.spec_bytes())")
ser_method("serialize_newtype_struct", SELF1, "value.enc()", passthru="value")
ser_method("serialize_newtype_variant", SELFN, "seq![0x7bu8] + enc_str(variant.spec_bytes()) + seq![0x3au8] + value.enc() + seq![0x7du8]", passthru="value")
ser_method("serialize_none", SELF0, "s_null()")
ser_method("serialize_some", SELF1, "value.enc()", passthru="value")

def compound_ctor(name, sig_rw, ret_rw, prefix, empty_suffix, lenexpr):
    out.append(f'''//@extract id=ser.{name} file={F} path="{SER}/fn {name}" tags=C03,C02
{N5}
{sig_rw}{ret_rw}//@ spec
        requires old(self).writer.wfw(),
        ensures
            r is Ok ==> ({{ let c = r->Ok_0;
                &&& c is Map
                &&& c->state == (if {lenexpr} {{ State::Empty }} else {{ State::First }})
                &&& c->ser.writer.appended(&old(self).writer, {prefix} + (if {lenexpr} {{ {empty_suffix} }} else {{ Seq::<u8>::empty() }})) }}),   //# U3.compound.{name}
            r is Err ==> (r matches Err(Error::BufferTooSmall))
                && old(self).writer.out().len() + ({prefix} + (if {lenexpr} {{ {empty_suffix} }} else {{ Seq::<u8>::empty() }})).len() > old(self).writer.cap(),   //# U3.compound.{name}.err
//@end
''')

def selfa(n):
    return f'//@ rewrite N6 "fn {n}(self," => "fn {n}<\'a>(&\'a mut self,"\n'
def selfa_ml(n):
    return f'//@ rewrite N6 "fn {n}( self," => "fn {n}<\'a>(&\'a mut self,"\n'
def ret(assoc):
    return f'//@ rewrite N6 "Self::{assoc}" => "Compound<\'a, \'b, CompactFormatter>"\n'
LB, RB, LC, RC = "seq![0x5bu8]", "seq![0x5du8]", "seq![0x7bu8]", "seq![0x7du8]"
compound_ctor("serialize_seq", selfa("serialize_seq"), ret("SerializeSeq"), LB, RB, "len == Some(0usize)")
compound_ctor("serialize_tuple", selfa("serialize_tuple"), ret("SerializeTuple"), LB, RB, "len == 0")
compound_ctor("serialize_tuple_struct", selfa_ml("serialize_tuple_struct"), ret("SerializeTupleStruct"), LB, RB, "len == 0")
compound_ctor("serialize_tuple_variant", selfa_ml("serialize_tuple_variant"), ret("SerializeTupleVariant"),
              "seq![0x7bu8] + enc_str(variant.spec_bytes()) + seq![0x3au8] + " + LB, RB, "len == 0")
compound_ctor("serialize_map", selfa("serialize_map"), ret("SerializeMap"), LC, RC, "len == Some(0usize)")
compound_ctor("serialize_struct", selfa("serialize_struct"), ret("SerializeStruct"), LC, RC, "len == 0")
compound_ctor("serialize_struct_variant", selfa_ml("serialize_struct_variant"), ret("SerializeStructVariant"),
              "seq![0x7bu8] + enc_str(variant.spec_bytes()) + seq![0x3au8] + " + LC, RC, "len == 0")
open(os.path.join(os.path.dirname(__file__), "..", "shared", "json_ser_methods.vrs"), "w").write("\n".join(out))

# ---- map key serializer -------------------------------------------------------------------------
out = []
def key_method(name, spec_ok=None, passthru=None, ml=False, ret_impossible=None):
    rw = ""
    if passthru:
        rw += '//@ rewrite N22 "value.serialize(self)" => "value.serialize_key(self)"\n'
    if ret_impossible:
        rw += f'//@ rewrite N6 "Self::{ret_impossible}" => "Impossible<(), Error>"\n'
    if spec_ok is None and not passthru:
        spec = '''            r matches Err(Error::KeyMustBeAString),   //# U3.key.%s.refused
            final(self.ser).writer.keeps(&old(self.ser).writer) && final(self.ser).writer.pos == old(self.ser).writer.pos,   //# U3.key.%s.nothing_written''' % (name, name)
    elif passthru:
        spec = f'''            r is Ok ==> {passthru}.key_ok() && final(self.ser).writer.appended(&old(self.ser).writer, {passthru}.key_enc()),   //# U3.key.{name}
            r is Err ==> final(self.ser).writer.keeps(&old(self.ser).writer),
            r matches Err(Error::KeyMustBeAString) ==> !{passthru}.key_ok(),
            r matches Err(Error::BufferTooSmall) ==> old(self.ser).writer.out().len() + {passthru}.key_enc().len() > old(self.ser).writer.cap() || !{passthru}.key_ok(),   //# U3.key.{name}.err'''
    else:
        spec = f'''            r is Ok ==> final(self.ser).writer.appended(&old(self.ser).writer, {spec_ok}),   //# U3.key.{name}
            r is Err ==> (r matches Err(Error::BufferTooSmall)) && final(self.ser).writer.keeps(&old(self.ser).writer)
                && old(self.ser).writer.out().len() + ({spec_ok}).len() > old(self.ser).writer.cap(),   //# U3.key.{name}.err'''
    out.append(f'''//@extract id=key.{name} file={F} path="{KEY}/fn {name}" tags=C03,C02
{N5}
{rw}//@ spec
        requires old(self.ser).writer.wfw(),
        ensures
{spec}
//@end
''')
Q = "seq![0x22u8]"
key_method("serialize_str", "enc_str(value.spec_bytes())")
key_method("serialize_unit_variant", "enc_str(variant.spec_bytes())")
key_method("serialize_newtype_struct", passthru="value")
key_method("serialize_bool")
for t in ints:
    key_method(f"serialize_{t}", f"{Q} + dec(value as int) + {Q}")
key_method("serialize_f32"); key_method("serialize_f64")
key_method("serialize_char", "enc_str(utf8_of(value))")
for n in ["serialize_bytes", "serialize_unit", "serialize_unit_struct", "serialize_newtype_variant", "serialize_none", "serialize_some"]:
    key_method(n)
for n, a in [("serialize_seq", "SerializeSeq"), ("serialize_tuple", "SerializeTuple"), ("serialize_tuple_struct", "SerializeTupleStruct"),
             ("serialize_tuple_variant", "SerializeTupleVariant"), ("serialize_map", "SerializeMap"), ("serialize_struct", "SerializeStruct"),
             ("serialize_struct_variant", "SerializeStructVariant")]:
    key_method(n, ret_impossible=a)
open(os.path.join(os.path.dirname(__file__), "..", "shared", "json_key_methods.vrs"), "w").write("\n".join(out))
print("generated")

# ---- Compound methods -----------------------------------------------------------------------------
out = []
COMMA = "(if (*old(self))->state == State::First { Seq::<u8>::empty() } else { seq![0x2cu8] })"
def elem(trait, fn, newname, what, rewrites="", passkey=False):
    """&mut self methods: serialize_element / serialize_field / serialize_key / serialize_value"""
    state_clause = ("\n                && (*final(self))->state == (*old(self))->state" if what.startswith("VALUE")
                    else "\n                && (*final(self))->state == State::Rest")
    if what == "ELEM":
        okv, enc, cond = "value.encodable()", f"{COMMA} + value.enc()", "value.encodable()"
    elif what == "KEY":
        okv, enc, cond = "key.key_ok()", f"{COMMA} + key.key_enc()", "key.key_ok()"
    elif what == "VALUE":
        okv, enc, cond = "value.encodable()", "seq![0x3au8] + value.enc()", "value.encodable()"
    elif what == "FIELD":
        okv, enc, cond = "value.encodable()", f"{COMMA} + enc_str(key.spec_bytes()) + seq![0x3au8] + value.enc()", "value.encodable()"
    out.append(f'''//@extract id=compound.{newname} file={F} path="impl {trait} for Compound/fn {fn}" tags=C03,C02
{N5}
//@ rename {newname}
{rewrites}//@ spec
        requires *old(self) is Map, (*old(self))->ser.writer.wfw(),
        ensures
            *final(self) is Map,
            r is Ok ==> {okv}{state_clause}
                && (*final(self))->ser.writer.appended(&(*old(self))->ser.writer, {enc}),   //# U3.compound.{newname}
            r is Err ==> (*final(self))->ser.writer.keeps(&(*old(self))->ser.writer),
            r matches Err(Error::KeyMustBeAString) ==> !{cond},
            r matches Err(Error::BufferTooSmall) ==> (*old(self))->ser.writer.out().len() + ({enc}).len() > (*old(self))->ser.writer.cap() || !{cond},   //# U3.compound.{newname}.err
//@end
''')
def end(trait, newname, suffix_nonempty, suffix_always="Seq::<u8>::empty()", rewrites=""):
    out.append(f'''//@extract id=compound.{newname} file={F} path="impl {trait} for Compound/fn end" tags=C03,C02
{N5}
//@ rename {newname}
{rewrites}//@ spec
        requires self is Map, old(self->ser).writer.wfw(),
        ensures
            r is Ok ==> final(self->ser).writer.appended(&old(self->ser).writer,
                (if self->state == State::Empty {{ Seq::<u8>::empty() }} else {{ {suffix_nonempty} }}) + {suffix_always}),   //# U3.compound.{newname}
            r is Err ==> (r matches Err(Error::BufferTooSmall)) && final(self->ser).writer.keeps(&old(self->ser).writer)
                && old(self->ser).writer.out().len() + ((if self->state == State::Empty {{ Seq::<u8>::empty() }} else {{ {suffix_nonempty} }}) + {suffix_always}).len() > old(self->ser).writer.cap(),   //# U3.compound.{newname}.err
//@end
''')
RB, RC = "seq![0x5du8]", "seq![0x7du8]"
UF_ELEM = '//@ rewrite N6 "ser::SerializeSeq::serialize_element(self, value)" => "Self::seq_serialize_element(self, value)"\n'
UF_END = '//@ rewrite N6 "ser::SerializeSeq::end(self)" => "Self::seq_end(self)"\n'
UF_ENTRY = '//@ rewrite N6 "ser::SerializeMap::serialize_entry(self, key, value)" => "Self::map_serialize_entry(self, key, value)"\n'
UF_MEND = '//@ rewrite N6 "ser::SerializeMap::end(self)" => "Self::map_end(self)"\n'
elem("SerializeSeq", "serialize_element", "seq_serialize_element", "ELEM")
end("SerializeSeq", "seq_end", RB)
elem("SerializeTuple", "serialize_element", "tuple_serialize_element", "ELEM", UF_ELEM)
end("SerializeTuple", "tuple_end", RB, rewrites=UF_END)
elem("SerializeTupleStruct", "serialize_field", "tuple_struct_serialize_field", "ELEM", UF_ELEM)
end("SerializeTupleStruct", "tuple_struct_end", RB, rewrites=UF_END)
elem("SerializeTupleVariant", "serialize_field", "tuple_variant_serialize_field", "ELEM", UF_ELEM)
end("SerializeTupleVariant", "tuple_variant_end", RB, suffix_always=RC)
elem("SerializeMap", "serialize_key", "map_serialize_key", "KEY", '//@ rewrite N22 "key.serialize(MapKeySerializer" => "key.serialize_key(MapKeySerializer"\n')
elem("SerializeMap", "serialize_value", "map_serialize_value", "VALUE")
end("SerializeMap", "map_end", RC)
open(os.path.join(os.path.dirname(__file__), "..", "shared", "json_compound_methods_1.vrs"), "w").write("\n".join(out))
out = []
elem("SerializeStruct", "serialize_field", "struct_serialize_field", "FIELD", UF_ENTRY)
end("SerializeStruct", "struct_end", RC, rewrites=UF_MEND)
elem("SerializeStructVariant", "serialize_field", "struct_variant_serialize_field", "FIELD", UF_ENTRY)
end("SerializeStructVariant", "struct_variant_end", RC, suffix_always=RC)
open(os.path.join(os.path.dirname(__file__), "..", "shared", "json_compound_methods_2.vrs"), "w").write("\n".join(out))
print("generated compound")
