//! Concrete-execution support for replaying counterexamples against the *real* zlink crates.
//! Nothing in here decides a property; it only confirms that a reported violation is visible
//! on the running code (or finds a concrete failing input for an obligation that failed).

use std::{
    cell::RefCell,
    future::Future,
    pin::Pin,
    rc::Rc,
    task::{Context, Poll, RawWaker, RawWakerVTable, Waker},
};

use zlink_core::connection::socket::{ReadHalf, Socket, WriteHalf};

fn noop_raw() -> RawWaker {
    fn clone(_: *const ()) -> RawWaker {
        noop_raw()
    }
    fn noop(_: *const ()) {}
    static VT: RawWakerVTable = RawWakerVTable::new(clone, noop, noop, noop);
    RawWaker::new(core::ptr::null(), &VT)
}

pub fn noop_waker() -> Waker {
    unsafe { Waker::from_raw(noop_raw()) }
}

/// Poll a future once.
pub fn poll_once<F: Future + ?Sized>(f: Pin<&mut F>) -> Poll<F::Output> {
    let w = noop_waker();
    let mut cx = Context::from_waker(&w);
    f.poll(&mut cx)
}

/// Run a future to completion; panics after `limit` polls that returned Pending.
pub fn block_on<F: Future>(f: F, limit: usize) -> F::Output {
    let mut f = Box::pin(f);
    for _ in 0..limit {
        if let Poll::Ready(v) = poll_once(f.as_mut()) {
            return v;
        }
    }
    panic!("future still pending after {limit} polls");
}

/// What the scripted transport does; shared between halves so the test can inspect it.
#[derive(Debug, Default)]
pub struct Script {
    /// bytes the peer sends
    pub wire: Vec<u8>,
    /// how many bytes have been handed out
    pub consumed: usize,
    /// sizes of successive reads (cycled; 0 entries are skipped); empty = as much as fits
    pub cuts: Vec<usize>,
    pub cut_idx: usize,
    /// read ordinals (0-based count of read() calls) that return Pending once before delivering
    pub pending_reads: Vec<usize>,
    pub reads: usize,
    pub pending_given: Vec<usize>,
    /// every write call's bytes
    pub log: Vec<Vec<u8>>,
    /// write ordinals that fail
    pub fail_writes: Vec<usize>,
    /// when the wire is exhausted: stay open (reads pend for ever) instead of reporting end of stream
    pub hold_open: bool,
    pub writes: usize,
    /// k > 0: every k-th write finds the transport momentarily full - it returns Pending once (waking its task) and
    /// then completes; such a transport still "keeps accepting writes"
    pub slow_write_every: usize,
}

#[derive(Debug, Clone)]
pub struct ScriptedSocket(pub Rc<RefCell<Script>>);
#[derive(Debug)]
pub struct ScriptedRead(pub Rc<RefCell<Script>>);
#[derive(Debug)]
pub struct ScriptedWrite(pub Rc<RefCell<Script>>);

impl ScriptedSocket {
    pub fn new(wire: &[u8], cuts: &[usize]) -> Self {
        ScriptedSocket(Rc::new(RefCell::new(Script {
            wire: wire.to_vec(),
            cuts: cuts.to_vec(),
            ..Default::default()
        })))
    }
}

impl Socket for ScriptedSocket {
    type ReadHalf = ScriptedRead;
    type WriteHalf = ScriptedWrite;
    fn split(self) -> (ScriptedRead, ScriptedWrite) {
        (ScriptedRead(self.0.clone()), ScriptedWrite(self.0))
    }
}

struct ReadFut<'a> {
    s: &'a Rc<RefCell<Script>>,
    buf: &'a mut [u8],
    ordinal: usize,
}

impl Future for ReadFut<'_> {
    type Output = zlink_core::Result<usize>;
    fn poll(self: Pin<&mut Self>, _cx: &mut Context<'_>) -> Poll<Self::Output> {
        let this = self.get_mut();
        let mut s = this.s.borrow_mut();
        if s.pending_reads.contains(&this.ordinal) && !s.pending_given.contains(&this.ordinal) {
            s.pending_given.push(this.ordinal);
            return Poll::Pending;
        }
        let remaining = s.wire.len() - s.consumed;
        if remaining == 0 && s.hold_open {
            return Poll::Pending;
        }
        let mut n = remaining.min(this.buf.len());
        if !s.cuts.is_empty() && n > 0 {
            let mut tries = 0;
            loop {
                let c = s.cuts[s.cut_idx % s.cuts.len()];
                s.cut_idx += 1;
                tries += 1;
                if c > 0 {
                    n = n.min(c);
                    break;
                }
                if tries > s.cuts.len() {
                    break;
                }
            }
        }
        let from = s.consumed;
        this.buf[..n].copy_from_slice(&s.wire[from..from + n]);
        s.consumed += n;
        Poll::Ready(Ok(n))
    }
}

impl ReadHalf for ScriptedRead {
    async fn read(&mut self, buf: &mut [u8]) -> zlink_core::Result<usize> {
        let ordinal = {
            let mut s = self.0.borrow_mut();
            s.reads += 1;
            s.reads - 1
        };
        ReadFut { s: &self.0, buf, ordinal }.await
    }
}

struct PendOnce(bool);
impl Future for PendOnce {
    type Output = ();
    fn poll(mut self: Pin<&mut Self>, cx: &mut Context<'_>) -> Poll<()> {
        if self.0 { Poll::Ready(()) } else { self.0 = true; cx.waker().wake_by_ref(); Poll::Pending }
    }
}

impl WriteHalf for ScriptedWrite {
    async fn write(&mut self, buf: &[u8]) -> zlink_core::Result<()> {
        let slow = {
            let mut s = self.0.borrow_mut();
            s.writes += 1;
            if s.fail_writes.contains(&(s.writes - 1)) {
                // which error a dead transport reports is its own business: alternately the crate's SocketWrite and an OS error
                // of an unusual kind (ENOMEM) - neither may matter to anyone but this connection
                return Err(if s.writes % 2 == 0 { zlink_core::Error::SocketWrite } else { zlink_core::Error::Io(std::io::Error::from(std::io::ErrorKind::OutOfMemory)) });
            }
            s.slow_write_every > 0 && s.writes % s.slow_write_every == 0
        };
        if slow {
            PendOnce(false).await;
        }
        self.0.borrow_mut().log.push(buf.to_vec());
        Ok(())
    }
}

pub fn hex(b: &[u8]) -> String {
    b.iter().map(|x| format!("{x:02x}")).collect()
}

pub fn unhex(s: &str) -> Vec<u8> {
    (0..s.len() / 2).map(|i| u8::from_str_radix(&s[2 * i..2 * i + 2], 16).unwrap()).collect()
}

/// Printable rendering of wire bytes for reports.
pub fn show(b: &[u8]) -> String {
    b.iter()
        .map(|&c| match c {
            0 => "\\0".to_string(),
            0x20..=0x7e => (c as char).to_string(),
            _ => format!("\\x{c:02x}"),
        })
        .collect()
}
