//! serdiff search <seed> <budget> [out.json] | serdiff <witness.json>
//! Differential runner: the REAL zlink-core/src/json_ser.rs (private module, pulled in by #[path]) against
//! serde_json::to_vec, over generated values exercising every serde data-model call, for every
//! free-space value around the encoded length.  Used to find / replay witnesses, never to pass a check.
#![allow(dead_code)]
use serde::ser::{Serialize, SerializeMap, SerializeSeq, SerializeStruct, SerializeStructVariant, SerializeTuple, SerializeTupleStruct, SerializeTupleVariant, Serializer};
use serde_json::json;

#[path = "/repo/zlink-core/src/json_ser.rs"]
mod json_ser;

/// A value tree that drives each serde call directly.
#[derive(Debug, Clone, serde::Serialize, serde::Deserialize)]
enum V {
    Bool(bool), I8(i8), I16(i16), I32(i32), I64(i64), I128(i128), U8(u8), U16(u16), U32(u32), U64(u64), U128(u128),
    F32(u32), F64(u64), Char(char), Str(String), Bytes(Vec<u8>), Unit, UnitStruct, UnitVariant, None, Some(Box<V>),
    NewtypeStruct(Box<V>), NewtypeVariant(Box<V>), Seq(Vec<V>), SeqNoLen(Vec<V>), Tuple(Vec<V>), TupleStruct(Vec<V>), TupleVariant(Vec<V>),
    Map(Vec<(V, V)>), Struct(Vec<V>), StructVariant(Vec<V>),
    /// a value whose Serialize impl consults `is_human_readable()` (std::net addresses, uuid, chrono do): a string if so, bytes if not
    HumanReadable(u8),
    /// a value serialized through `Serializer::collect_str` whose Display writes two fragments and IGNORES an error of the first
    /// (harmless against a String, which is where serde's provided collect_str formats it): the output must not depend on where
    /// in the free space a fragment happens to end
    Disp(String, String),
}
struct Sloppy<'a>(&'a str, &'a str);
impl std::fmt::Display for Sloppy<'_> {
    fn fmt(&self, f: &mut std::fmt::Formatter<'_>) -> std::fmt::Result { let _ = f.write_str(self.0); f.write_str(self.1) }
}
const FIELDS: [&str; 4] = ["a", "b\"q", "c\u{7}", "d\\"];
struct W<'a>(&'a V);
impl Serialize for W<'_> {
    fn serialize<S: Serializer>(&self, s: S) -> Result<S::Ok, S::Error> {
        match self.0 {
            V::Disp(a, b) => s.collect_str(&Sloppy(a, b)),
            V::HumanReadable(x) => if s.is_human_readable() { s.serialize_str(&format!("10.0.0.{x}")) } else { s.serialize_bytes(&[10, 0, 0, *x]) },
            V::Bool(v) => s.serialize_bool(*v), V::I8(v) => s.serialize_i8(*v), V::I16(v) => s.serialize_i16(*v),
            V::I32(v) => s.serialize_i32(*v), V::I64(v) => s.serialize_i64(*v), V::I128(v) => s.serialize_i128(*v),
            V::U8(v) => s.serialize_u8(*v), V::U16(v) => s.serialize_u16(*v), V::U32(v) => s.serialize_u32(*v),
            V::U64(v) => s.serialize_u64(*v), V::U128(v) => s.serialize_u128(*v),
            V::F32(b) => s.serialize_f32(f32::from_bits(*b)), V::F64(b) => s.serialize_f64(f64::from_bits(*b)),
            V::Char(c) => s.serialize_char(*c), V::Str(x) => s.serialize_str(x), V::Bytes(b) => s.serialize_bytes(b),
            V::Unit => s.serialize_unit(), V::UnitStruct => s.serialize_unit_struct("U"), V::UnitVariant => s.serialize_unit_variant("E", 1, "va\"r"),
            V::None => s.serialize_none(), V::Some(v) => s.serialize_some(&W(v)),
            V::NewtypeStruct(v) => s.serialize_newtype_struct("N", &W(v)), V::NewtypeVariant(v) => s.serialize_newtype_variant("E", 0, "nv", &W(v)),
            V::Seq(v) => { let mut q = s.serialize_seq(Some(v.len()))?; for x in v { q.serialize_element(&W(x))?; } q.end() }
            V::SeqNoLen(v) => { let mut q = s.serialize_seq(None)?; for x in v { q.serialize_element(&W(x))?; } q.end() }
            V::Tuple(v) => { let mut q = s.serialize_tuple(v.len())?; for x in v { q.serialize_element(&W(x))?; } q.end() }
            V::TupleStruct(v) => { let mut q = s.serialize_tuple_struct("T", v.len())?; for x in v { q.serialize_field(&W(x))?; } q.end() }
            V::TupleVariant(v) => { let mut q = s.serialize_tuple_variant("E", 2, "tv", v.len())?; for x in v { q.serialize_field(&W(x))?; } q.end() }
            V::Map(v) => { let mut q = s.serialize_map(Some(v.len()))?; for (k, x) in v { q.serialize_key(&W(k))?; q.serialize_value(&W(x))?; } q.end() }
            V::Struct(v) => { let n = v.len().min(4); let mut q = s.serialize_struct("S", n)?; for (i, x) in v.iter().take(4).enumerate() { q.serialize_field(FIELDS[i], &W(x))?; } q.end() }
            V::StructVariant(v) => { let n = v.len().min(4); let mut q = s.serialize_struct_variant("E", 3, "sv", n)?; for (i, x) in v.iter().take(4).enumerate() { q.serialize_field(FIELDS[i], &W(x))?; } q.end() }
        }
    }
}

struct Rng(u64);
impl Rng {
    fn next(&mut self) -> u64 { self.0 ^= self.0 << 13; self.0 ^= self.0 >> 7; self.0 ^= self.0 << 17; self.0 }
    fn below(&mut self, n: usize) -> usize { (self.next() % n as u64) as usize }
}
fn gen_str(r: &mut Rng) -> String {
    let n = r.below(6);
    (0..n).map(|_| match r.below(6) {
        0 => char::from_u32(r.below(0x20) as u32).unwrap(), 1 => '"', 2 => '\\', 3 => char::from_u32(0x7f + r.below(0x800) as u32).unwrap_or('x'),
        4 => ['\u{10000}', '\u{fffd}', 'é', '/', '\u{2028}'][r.below(5)], _ => (b'a' + r.below(26) as u8) as char }).collect()
}
fn gen(r: &mut Rng, depth: usize) -> V {
    let leaf = depth == 0;
    let k = if leaf { r.below(21) } else { r.below(31) };
    let kids = |r: &mut Rng| -> Vec<V> { (0..r.below(4)).map(|_| gen(r, depth - 1)).collect() };
    match k {
        0 => V::Bool(r.below(2) == 0), 1 => V::I8(r.next() as i8), 2 => V::I16(r.next() as i16), 3 => V::I32(r.next() as i32), 4 => V::I64(r.next() as i64),
        5 => V::I128(((r.next() as u128) << 64 | r.next() as u128) as i128), 6 => V::U8(r.next() as u8), 7 => V::U16(r.next() as u16), 8 => V::U32(r.next() as u32),
        9 => V::U64(r.next()), 10 => V::U128((r.next() as u128) << 64 | r.next() as u128),
        11 => V::F32(match r.below(4) { 0 => f32::NAN.to_bits(), 1 => f32::INFINITY.to_bits(), 2 => f32::NEG_INFINITY.to_bits(), _ => r.next() as u32 }),
        12 => V::F64(match r.below(4) { 0 => f64::NAN.to_bits(), 1 => f64::INFINITY.to_bits(), 2 => (-0.0f64).to_bits(), _ => r.next() }),
        13 => V::Char(gen_str(r).chars().next().unwrap_or('\u{1}')), 14 => V::Str(gen_str(r)), 15 => V::Bytes((0..r.below(5)).map(|_| r.next() as u8).collect()),
        16 => V::Unit, 17 => V::UnitStruct, 18 => V::UnitVariant, 19 => V::None, 20 => match r.below(3) { 0 => V::Str(gen_str(r)), 1 => V::HumanReadable(r.next() as u8), _ => V::Disp(gen_str(r) + "ab", if r.below(2) == 0 { String::new() } else { gen_str(r) }) },
        21 => V::Some(Box::new(gen(r, depth - 1))), 22 => V::NewtypeStruct(Box::new(gen(r, depth - 1))), 23 => V::NewtypeVariant(Box::new(gen(r, depth - 1))),
        24 => V::Seq(kids(r)), 25 => V::Tuple(kids(r)), 26 => V::TupleStruct(kids(r)), 27 => V::TupleVariant(kids(r)),
        28 => { let n = r.below(4); V::Map((0..n).map(|_| (gen(r, 0), gen(r, depth - 1))).collect()) }
        29 => V::Struct(kids(r)), 30 => if r.below(2) == 0 { V::StructVariant(kids(r)) } else { V::SeqNoLen(kids(r)) },
        _ => V::Unit,
    }
}

/// does the tree contain a map key outside {string, char, integer, unit variant}? (zlink refuses those; the
/// property allows that even where serde_json is more lenient, e.g. bool or float keys)
fn key_ok(k: &V) -> bool {
    match k {
        V::Str(_) | V::HumanReadable(_) | V::Disp(_, _) | V::Char(_) | V::UnitVariant | V::I8(_) | V::I16(_) | V::I32(_) | V::I64(_) | V::I128(_) | V::U8(_) | V::U16(_) | V::U32(_) | V::U64(_) | V::U128(_) => true,
        V::NewtypeStruct(x) => key_ok(x),
        _ => false,
    }
}
fn has_refusable_key(v: &V) -> bool {
    match v {
        V::Map(m) => m.iter().any(|(k, x)| !key_ok(k) || has_refusable_key(x)),
        V::Some(x) | V::NewtypeStruct(x) | V::NewtypeVariant(x) => has_refusable_key(x),
        V::Seq(x) | V::SeqNoLen(x) | V::Tuple(x) | V::TupleStruct(x) | V::TupleVariant(x) | V::Struct(x) | V::StructVariant(x) => x.iter().any(has_refusable_key),
        _ => false,
    }
}

/// compare on one value; returns a description of the first disagreement
fn check(v: &V) -> Option<String> {
    let reference = serde_json::to_vec(&W(v));
    let mut big = vec![0xAAu8; 4096];
    let got = json_ser::to_slice(&W(v), &mut big);
    match (&reference, &got) {
        (Ok(want), Ok(n)) => {
            if &big[..*n] != &want[..] { return Some(format!("bytes differ: zlink {:?} vs serde_json {:?}", String::from_utf8_lossy(&big[..*n]), String::from_utf8_lossy(want))); }
            if big[*n..].iter().any(|&b| b != 0xAA) { return Some("wrote beyond the reported length".into()); }
            if want.iter().any(|&b| b < 0x20) { return Some("raw control character in output".into()); }
            // every free-space value around the length: fits <=> Ok, and same bytes
            for cap in want.len().saturating_sub(3)..want.len() + 2 {
                let mut b = vec![0u8; cap];
                match json_ser::to_slice(&W(v), &mut b) {
                    Ok(m) => { if cap < want.len() || &b[..m] != &want[..] { return Some(format!("cap {cap}: Ok({m}) but encoding needs {}", want.len())); } }
                    Err(json_ser::Error::BufferTooSmall) => { if cap >= want.len() { return Some(format!("cap {cap}: BufferTooSmall although {} bytes fit", want.len())); } }
                    Err(e) => return Some(format!("cap {cap}: unexpected error {e:?}")),
                }
            }
            None
        }
        (Err(_), Err(json_ser::Error::KeyMustBeAString)) => None,
        (Err(_), Err(json_ser::Error::BufferTooSmall)) => Some("BufferTooSmall with 4096 bytes free".into()),
        (Ok(_), Err(json_ser::Error::KeyMustBeAString)) if has_refusable_key(v) => None,
        (Ok(w), Err(e)) => Some(format!("zlink refuses ({e:?}) what serde_json encodes as {:?}", String::from_utf8_lossy(w))),
        (Err(e), Ok(n)) => Some(format!("zlink encodes {:?} what serde_json refuses ({e})", String::from_utf8_lossy(&big[..*n]))),
    }
}

fn main() {
    let a: Vec<String> = std::env::args().collect();
    if a.len() >= 4 && a[1] == "search" {
        let mut r = Rng(a[2].parse::<u64>().unwrap().wrapping_mul(0x9E3779B97F4A7C15) | 1);
        let budget: usize = a[3].parse().unwrap();
        // exhaustive part first: every byte < 0x80 and a sample of scalars as 1-char strings/keys/chars
        let mut cases: Vec<V> = (0u32..0x80).flat_map(|c| { let ch = char::from_u32(c).unwrap(); vec![V::Char(ch), V::Str(ch.to_string()), V::Map(vec![(V::Char(ch), V::Unit)])] }).collect();
        cases.extend((i8::MIN..=i8::MAX).map(V::I8));
        cases.extend((0..=255u8).map(|k| V::Map(vec![(V::U8(k), V::Bool(true))])));
        for _ in 0..budget { cases.push(gen(&mut r, 3)); }
        for v in &cases {
            if let Some(why) = check(v) {
                let w = json!({"kind": "ser", "value_json": serde_json::to_string(v).unwrap(), "why": why});
                let s = serde_json::to_string_pretty(&w).unwrap();
                if let Some(out) = a.get(4) { std::fs::write(out, &s).unwrap(); }
                println!("FOUND {s}");
                std::process::exit(1);
            }
        }
        println!("no failing input found in {} cases", cases.len());
        return;
    }
    let f: serde_json::Value = serde_json::from_str(&std::fs::read_to_string(&a[1]).unwrap()).unwrap();
    let w = if f.get("witness").is_some() && !f["witness"].is_null() { &f["witness"] } else { &f };
    let v: V = match w.get("value_json").and_then(|x| x.as_str()) {
        Some(s) => serde_json::from_str(s).unwrap(),
        None => serde_json::from_value(w["value"].clone()).unwrap(),
    };
    match check(&v) {
        Some(why) => { println!("value = {v:?}\n{why}\nREPLAY: FAILS on the real code"); std::process::exit(1) }
        None => println!("value = {v:?}\nREPLAY: passes on the real code"),
    }
}
