//! replay <scenario.json>          run one recorded scenario against the real code; exit 1 if it fails
//! replay search <kind> <seed> <budget> [out.json]
//!                                  look for a failing scenario of that kind (counterexample finder)
use serde::{Deserialize, Serialize};
use serde_json::{json, Value};
use std::{pin::pin, task::Poll};
use zlink_core::Call;
use zlink_replay::*;

#[derive(Debug, Deserialize, Serialize, PartialEq, Clone)]
#[serde(tag = "method", content = "parameters")]
enum M {
    #[serde(rename = "a.B")]
    B { a: u32 },
    #[serde(rename = "a.C")]
    C,
    #[serde(rename = "a.S")]
    S { s: String },
}

#[derive(Debug, Deserialize, Serialize, PartialEq, Clone)]
struct P {
    a: u32,
}

#[derive(Debug, Deserialize, Serialize, PartialEq, Clone)]
#[serde(tag = "error", content = "parameters")]
enum E {
    #[serde(rename = "a.Bad")]
    Bad { code: u32 },
}

fn frames_of(wire: &[u8]) -> Vec<&[u8]> {
    let mut v = Vec::new();
    let mut start = 0;
    for (i, &b) in wire.iter().enumerate() {
        if b == 0 {
            v.push(&wire[start..i]);
            start = i + 1;
        }
    }
    v
}

/// expected result per frame as a comparable string ("ok:<debug>" | "err:json")
fn oracle_call(frame: &[u8]) -> String {
    match serde_json::from_slice::<Call<M>>(frame) {
        Ok(c) => format!("ok:{c:?}"),
        Err(_) => "err:json".into(),
    }
}

/// C01 / C07: receive all frames of `wire` with the given chunking; the receive future is
/// dropped and re-created every time it returns Pending (reads listed in `pending_reads`).
fn run_recv(wire: &[u8], cuts: &[usize], pending_reads: &[usize]) -> (Vec<String>, Vec<String>) {
    let frames = frames_of(wire);
    let mut expected: Vec<String> = frames.iter().map(|f| oracle_call(f)).collect();
    expected.push("err:eof".into());
    let sock = ScriptedSocket::new(wire, cuts);
    sock.0.borrow_mut().pending_reads = pending_reads.to_vec();
    let script = sock.0.clone();
    let mut conn = zlink_core::Connection::new(sock);
    let mut got = Vec::new();
    let mut polls = 0usize;
    loop {
        polls += 1;
        if polls > 100_000 {
            got.push("hang".into());
            break;
        }
        let res = {
            let mut fut = pin!(conn.receive_call::<M>());
            match poll_once(fut.as_mut()) {
                Poll::Ready(r) => Some(match r {
                    Ok(c) => format!("ok:{c:?}"),
                    Err(zlink_core::Error::UnexpectedEof) => "err:eof".to_string(),
                    Err(zlink_core::Error::Json(_)) => "err:json".to_string(),
                    Err(e) => format!("err:{e:?}"),
                }),
                Poll::Pending => None, // future dropped here = cancellation
            }
        };
        if let Some(s) = res {
            let eof = s == "err:eof";
            got.push(s);
            if eof || got.len() > expected.len() + 2 {
                break;
            }
        }
    }
    let _ = script;
    (expected, got)
}

struct Rng(u64);
impl Rng {
    fn next(&mut self) -> u64 {
        self.0 ^= self.0 << 13;
        self.0 ^= self.0 >> 7;
        self.0 ^= self.0 << 17;
        self.0
    }
    fn below(&mut self, n: usize) -> usize {
        (self.next() % n as u64) as usize
    }
}

fn gen_frame(rng: &mut Rng) -> Vec<u8> {
    let pad = |rng: &mut Rng| [" ", "", "", "\n", "  \t"][rng.below(5)].to_string();
    let body = match rng.below(9) {
        0 => r#"{"method":"a.B","parameters":{"a":1}}"#.to_string(),
        1 => r#"{"method":"a.C"}"#.to_string(),
        2 => r#"{"method":"a.C","oneway":true}"#.to_string(),
        3 => r#"{"method":"a.B","parameters":{"a":"x"}}"#.to_string(), // wrong shape
        4 => r#"{"method":"a.B","parameters":{"a":2}}}"#.to_string(),  // trailing garbage
        5 => r#"{"method":"a.B","parameters":{"a":"#.to_string(),        // truncated
        6 => format!(r#"{{"method":"a.S","parameters":{{"s":"{}"}}}}"#, "x".repeat(rng.below(600))),
        7 => "x".to_string(),
        _ => r#"{"method":"a.B","parameters":{"a":7}} {"method":"a.C"}"#.to_string(), // two docs in one frame
    };
    let mut f = pad(rng).into_bytes();
    f.extend_from_slice(body.as_bytes());
    f.extend_from_slice(pad(rng).as_bytes());
    if f.is_empty() {
        f.push(b' ');
    }
    f
}

fn search_recv(seed: u64, budget: usize, cancel: bool) -> Option<Value> {
    let mut rng = Rng(seed.wrapping_mul(0x9E3779B97F4A7C15) | 1);
    for _ in 0..budget {
        let nframes = 1 + rng.below(4);
        let mut wire = Vec::new();
        for _ in 0..nframes {
            wire.extend(gen_frame(&mut rng));
            wire.push(0);
        }
        let cuts: Vec<usize> = match rng.below(4) {
            0 => vec![],
            1 => vec![1],
            2 => (0..1 + rng.below(5)).map(|_| 1 + rng.below(40)).collect(),
            _ => vec![1 + rng.below(wire.len())],
        };
        let pending: Vec<usize> = if cancel { (0..rng.below(6)).map(|_| rng.below(12)).collect() } else { vec![] };
        let (exp, got) = run_recv(&wire, &cuts, &pending);
        if exp != got {
            return Some(json!({"kind":"recv","wire_hex":hex(&wire),"wire_shown":show(&wire),"cuts":cuts,"pending_reads":pending,
                               "expected":exp,"got":got}));
        }
    }
    None
}

fn main() {
    let args: Vec<String> = std::env::args().collect();
    if args.len() >= 2 && args[1] == "search" {
        let kind = args[2].as_str();
        let seed: u64 = args[3].parse().unwrap();
        let budget: usize = args[4].parse().unwrap();
        let found = match kind {
            "recv" => search_recv(seed, budget, false),
            "recv_cancel" => search_recv(seed, budget, true),
            _ => panic!("unknown kind"),
        };
        match found {
            Some(v) => {
                let s = serde_json::to_string_pretty(&v).unwrap();
                if let Some(out) = args.get(5) {
                    std::fs::write(out, &s).unwrap();
                }
                println!("FOUND {s}");
                std::process::exit(1);
            }
            None => {
                println!("no failing input found in {budget} cases");
                std::process::exit(0);
            }
        }
    }
    let v: Value = serde_json::from_str(&std::fs::read_to_string(&args[1]).unwrap()).unwrap();
    let w = if v.get("witness").is_some() { &v["witness"] } else { &v };
    match w["kind"].as_str() {
        Some("recv") => {
            let wire = unhex(w["wire_hex"].as_str().unwrap());
            let cuts: Vec<usize> = w["cuts"].as_array().unwrap().iter().map(|x| x.as_u64().unwrap() as usize).collect();
            let pend: Vec<usize> = w["pending_reads"].as_array().map(|a| a.iter().map(|x| x.as_u64().unwrap() as usize).collect()).unwrap_or_default();
            let (exp, got) = run_recv(&wire, &cuts, &pend);
            println!("wire     = {}", show(&wire));
            println!("expected = {exp:?}");
            println!("got      = {got:?}");
            if exp != got {
                println!("REPLAY: FAILS on the real code");
                std::process::exit(1);
            }
            println!("REPLAY: passes on the real code");
        }
        _ => {
            println!("replay file carries no executable witness (no-failing-input-found); obligation: {}", v["obligation"]);
            println!("{}", v["verifier_output"].as_str().unwrap_or(""));
        }
    }
}
