//! replay <scenario.json>          run one recorded scenario against the real code; exit 1 if it fails
//! replay search <kind> <seed> <budget> [out.json]
//!                                  look for a failing scenario of that kind (counterexample finder)
use serde::{Deserialize, Serialize};
use serde_json::{json, Value};
use std::{pin::pin, task::Poll};
use zlink_core::{Call, Reply, service::MethodReply};
use zlink_replay::*;

#[derive(Debug, Deserialize, Serialize, PartialEq, Clone)]
#[serde(tag = "method", content = "parameters")]
enum M {
    #[serde(rename = "a.B")]
    B { a: u32 },
    #[serde(rename = "a.C")]
    C,
    #[serde(rename = "a.S")]
    S { s: String },
    #[serde(rename = "a.T")]
    T { n: u32 },
    /// a stream whose last item carries no `continues` flag at all (absent = last reply)
    #[serde(rename = "a.U")]
    U { n: u32 },
}

#[derive(Debug, Deserialize, Serialize, PartialEq, Clone)]
struct P {
    a: u32,
}

#[derive(Debug, Deserialize, Serialize, PartialEq, Clone)]
#[serde(tag = "error", content = "parameters")]
enum E {
    #[serde(rename = "a.Bad")]
    Bad { code: u32 },
}

fn frames_of(wire: &[u8]) -> Vec<&[u8]> {
    let mut v = Vec::new();
    let mut start = 0;
    for (i, &b) in wire.iter().enumerate() {
        if b == 0 {
            v.push(&wire[start..i]);
            start = i + 1;
        }
    }
    v
}

/// expected result per frame as a comparable string ("ok:<debug>" | "err:json")
fn oracle_call(frame: &[u8]) -> String {
    match serde_json::from_slice::<Call<M>>(frame) {
        Ok(c) => format!("ok:{c:?}"),
        Err(_) => "err:decode".into(),
    }
}

/// C01 / C07: receive all frames of `wire` with the given chunking; the receive future is
/// dropped and re-created every time it returns Pending (reads listed in `pending_reads`).
/// `failed_sends`: that many Connection-level sends are attempted first and FAIL (the transport's write half is dead): what the
/// peer had already sent must still be received - a failed write says nothing about the inbound direction
fn run_recv(wire: &[u8], cuts: &[usize], pending_reads: &[usize], failed_sends: usize) -> (Vec<String>, Vec<String>) {
    let frames = frames_of(wire);
    let mut expected: Vec<String> = frames.iter().map(|f| oracle_call(f)).collect();
    expected.push("err:eof".into());
    let sock = ScriptedSocket::new(wire, cuts);
    sock.0.borrow_mut().pending_reads = pending_reads.to_vec();
    let script = sock.0.clone();
    script.borrow_mut().fail_writes = (0..failed_sends).collect();
    let mut conn = zlink_core::Connection::new(sock);
    for _ in 0..failed_sends { let _ = block_on(conn.send_call(&Call::new(M::C)), 10); }
    let mut got = Vec::new();
    let mut polls = 0usize;
    loop {
        polls += 1;
        if polls > 100_000 {
            got.push("hang".into());
            break;
        }
        let res = {
            let mut fut = pin!(conn.receive_call::<M>());
            match poll_once(fut.as_mut()) {
                Poll::Ready(r) => Some(match r {
                    Ok(c) => format!("ok:{c:?}"),
                    Err(zlink_core::Error::UnexpectedEof) => "err:eof".to_string(),
                    // any other error is "this frame could not be decoded" (which variant reports it is not the property's business)
                    Err(zlink_core::Error::Json(_)) | Err(zlink_core::Error::InvalidUtf8(_)) => "err:decode".to_string(),
                    Err(e) => format!("err:{e:?}"),
                }),
                Poll::Pending => None, // future dropped here = cancellation
            }
        };
        if let Some(s) = res {
            let eof = s == "err:eof";
            got.push(s);
            if eof || got.len() > expected.len() + 2 {
                break;
            }
        }
    }
    let _ = script;
    (expected, got)
}

// ---------------------------------------------------------------------------------------------
// C08: a real Server over scripted connections
#[derive(Debug)]
struct ScriptedListener {
    conns: Vec<ScriptedSocket>,
}
impl zlink_core::Listener for ScriptedListener {
    type Socket = ScriptedSocket;
    async fn accept(&mut self) -> zlink_core::Result<zlink_core::Connection<ScriptedSocket>> {
        if let Some(s) = self.conns.pop() {
            Ok(zlink_core::Connection::new(s))
        } else {
            std::future::pending().await
        }
    }
}
thread_local! { static SERVED: std::cell::RefCell<Vec<u32>> = std::cell::RefCell::new(Vec::new()); }
struct Svc;
/// the service's reply stream: the items in order; `idle_polls` Pending results (each with a wake-up) before every item and the end
struct ItemStream { items: std::collections::VecDeque<Reply<P>>, idle_polls: usize, idle_left: usize }
impl futures_util::Stream for ItemStream {
    type Item = Reply<P>;
    fn poll_next(mut self: std::pin::Pin<&mut Self>, cx: &mut std::task::Context<'_>) -> Poll<Option<Reply<P>>> {
        if self.idle_left > 0 { self.idle_left -= 1; cx.waker().wake_by_ref(); return Poll::Pending; }
        self.idle_left = self.idle_polls;
        Poll::Ready(self.items.pop_front())
    }
}
impl zlink_core::Service for Svc {
    type MethodCall<'de> = M;
    type ReplyParams<'ser> = P;
    type ReplyStreamParams = P;
    type ReplyStream = ItemStream;
    type ReplyError<'ser> = E;
    async fn handle<'ser>(&'ser mut self, call: Call<Self::MethodCall<'_>>) -> MethodReply<Self::ReplyParams<'ser>, Self::ReplyStream, Self::ReplyError<'ser>> {
        match call.method() {
            M::B { a } => { SERVED.with(|s| s.borrow_mut().push(*a)); MethodReply::Single(Some(P { a: *a })) }
            M::C => MethodReply::Single(None),
            M::S { .. } => MethodReply::Error(E::Bad { code: 7 }),
            M::T { n } => {
                let n = *n;
                let items: Vec<Reply<P>> = (0..n).map(|i| Reply::new(Some(P { a: 1000 + i })).set_continues(Some(i + 1 < n))).collect();
                MethodReply::Multi(ItemStream { items: items.into(), idle_polls: 0, idle_left: 0 })
            }
            M::U { n } => {
                let n = *n;
                let items: Vec<Reply<P>> = (0..n).map(|i| { let r = Reply::new(Some(P { a: 2000 + i })); if i + 1 < n { r.set_continues(Some(true)) } else { r } }).collect();
                // a.U is a SLOW stream: it is idle (Pending, but woken) for three polls before each item and before its end, so the
                // server loop goes round with the subscription open and nothing to deliver - whatever else it does meanwhile
                MethodReply::Multi(ItemStream { items: items.into(), idle_polls: 3, idle_left: 3 })
            }
        }
    }
}

/// expected frames on the connection for the calls in `wire` (all frames valid calls)
fn oracle_server(wire: &[u8]) -> Vec<String> {
    let mut out = Vec::new();
    for f in frames_of(wire) {
        let c: Call<M> = match serde_json::from_slice(f) {
            Ok(c) => c,
            Err(_) => break, // connection is dropped at the first undecodable call
        };
        if c.oneway() {
            continue;
        }
        out.push(match c.method() {
            M::B { a } => format!(r#"{{"parameters":{{"a":{a}}},"continues":false}}"#),
            M::C => r#"{"continues":false}"#.to_string(),
            M::S { .. } => r#"{"error":"a.Bad","parameters":{"code":7}}"#.to_string(),
            M::T { n } => {
                for i in 0..*n { out.push(format!(r#"{{"parameters":{{"a":{}}},"continues":{}}}"#, 1000 + i, i + 1 < *n)); }
                continue;
            }
            M::U { n } => {
                for i in 0..*n { out.push(if i + 1 < *n { format!(r#"{{"parameters":{{"a":{}}},"continues":true}}"#, 2000 + i) } else { format!(r#"{{"parameters":{{"a":{}}}}}"#, 2000 + i) }); }
                continue;
            }
        });
    }
    out
}

fn run_server(wires: &[Vec<u8>], cuts: &[usize]) -> (Vec<Vec<String>>, Vec<Vec<String>>) {
    run_server_opt(wires, cuts, false)
}
fn run_server_opt(wires: &[Vec<u8>], cuts: &[usize], hold_open: bool) -> (Vec<Vec<String>>, Vec<Vec<String>>) {
    let socks: Vec<ScriptedSocket> = wires.iter().map(|w| { let s = ScriptedSocket::new(w, cuts); s.0.borrow_mut().hold_open = hold_open; s }).collect();
    let scripts: Vec<_> = socks.iter().map(|s| s.0.clone()).collect();
    let mut conns = socks;
    conns.reverse();
    let server = zlink_core::Server::new(ScriptedListener { conns }, Svc);
    let mut fut = Box::pin(server.run());
    for _ in 0..10_000 {
        if let Poll::Ready(_) = poll_once(fut.as_mut()) {
            break;
        }
        // quiescent when every script is fully consumed and a few more polls made no writes
        if scripts.iter().all(|s| { let s = s.borrow(); s.consumed == s.wire.len() }) {
            let before: usize = scripts.iter().map(|s| s.borrow().log.len()).sum();
            for _ in 0..8 { let _ = poll_once(fut.as_mut()); }
            let after: usize = scripts.iter().map(|s| s.borrow().log.len()).sum();
            if before == after { break; }
        }
    }
    let expected = wires.iter().map(|w| oracle_server(w)).collect();
    let got = scripts.iter().map(|s| {
        let flat: Vec<u8> = s.borrow().log.iter().flatten().copied().collect();
        frames_of(&flat).iter().map(|f| String::from_utf8_lossy(f).to_string()).collect()
    }).collect();
    (expected, got)
}

fn search_server(seed: u64, budget: usize) -> Option<Value> {
    let mut rng = Rng(seed.wrapping_mul(0x9E3779B97F4A7C15) | 1);
    let calls = [
        r#"{"method":"a.B","parameters":{"a":1}}"#, r#"{"method":"a.C"}"#, r#"{"method":"a.C","oneway":true}"#,
        r#"{"method":"a.B","parameters":{"a":5},"oneway":true}"#, r#"{"method":"a.S","parameters":{"s":"x"}}"#,
        r#"{"method":"a.S","parameters":{"s":"x"},"oneway":true}"#, r#"{"method":"a.B","parameters":{"a":9},"more":true}"#,
    ];
    for _ in 0..budget {
        let nconn = 1 + rng.below(3);
        let mut wires = Vec::new();
        for _ in 0..nconn {
            let mut w = Vec::new();
            for _ in 0..rng.below(6) {
                w.extend_from_slice(calls[rng.below(calls.len())].as_bytes());
                w.push(0);
            }
            wires.push(w);
        }
        let cuts: Vec<usize> = match rng.below(3) { 0 => vec![], 1 => vec![1 + rng.below(7)], _ => (0..3).map(|_| 1 + rng.below(60)).collect() };
        let (exp, got) = run_server(&wires, &cuts);
        if exp != got {
            return Some(json!({"kind":"server","wires_hex":wires.iter().map(|w| hex(w)).collect::<Vec<_>>(),
                "wires_shown":wires.iter().map(|w| show(w)).collect::<Vec<_>>(),"cuts":cuts,"expected":exp,"got":got}));
        }
    }
    None
}

// ---------------------------------------------------------------------------------------------
// C06: chains.  calls: 0 = plain, 1 = oneway, 2 = more, 3 = oneway + more (owed nothing).  script[i] for non-oneway call i:
// (k continuing replies, final kind: 0 = success, 1 = declared error)
/// `prologue`: that many plain calls are first enqueued DIRECTLY on the connection, flushed, and their replies received by hand -
/// an earlier, finished exchange; the chain that follows owes and is owed nothing on its account
fn run_chain(flags: &[u8], script: &[(usize, u8)], cuts: &[usize], pending: &[usize], prologue: usize) -> (Vec<String>, Vec<String>) {
    use futures_util::stream::StreamExt;
    let mut wire = Vec::new();
    let mut expected = Vec::new();
    for j in 0..prologue { wire.extend_from_slice(format!(r#"{{"parameters":{{"a":{}}}}}"#, 7000 + j).as_bytes()); wire.push(0); expected.push(format!("prologue:{}", 7000 + j)); }
    let mut si = 0;
    let last_owing = flags.iter().rposition(|f| *f == 0 || *f == 2);
    for (i, f) in flags.iter().enumerate() {
        if *f == 1 || *f == 3 { continue; }
        let (k, fin) = script[si % script.len().max(1)];
        // fin == 2: the final reply of the LAST reply-owing call is a well-framed but undecodable document: the stream
        // yields the decode error and ends, having consumed exactly that frame (elsewhere 2 means 0)
        let fin = if fin == 2 && Some(i) != last_owing { 0 } else { fin };
        si += 1;
        let k = if *f == 2 { k } else { 0 };
        for j in 0..k {
            wire.extend_from_slice(format!(r#"{{"parameters":{{"a":{}}},"continues":true}}"#, 100 * i + j).as_bytes());
            wire.push(0);
            expected.push(format!("ok:{}:Some(true)", 100 * i + j));
        }
        if fin == 0 {
            wire.extend_from_slice(format!(r#"{{"parameters":{{"a":{}}}}}"#, 100 * i + 99).as_bytes());
            expected.push(format!("ok:{}:None", 100 * i + 99));
        } else if fin == 2 {
            wire.extend_from_slice(br#"{"parameters":{"a":"not a number"}}"#);
            expected.push("decode-error".into());
        } else {
            wire.extend_from_slice(format!(r#"{{"error":"a.Bad","parameters":{{"code":{}}}}}"#, i).as_bytes());
            expected.push(format!("err:{i}"));
        }
        wire.push(0);
    }
    expected.push("end".into());
    // a later, unrelated exchange on the same connection
    wire.extend_from_slice(br#"{"parameters":{"a":424242}}"#);
    wire.push(0);
    expected.push("later:424242".into());
    let mut calls_expected = Vec::new();
    let sock = ScriptedSocket::new(&wire, cuts);
    // reads (by ordinal) that return Pending once before they deliver: the reply stream is polled again, never dropped
    sock.0.borrow_mut().pending_reads = pending.to_vec();
    let script_h = sock.0.clone();
    let mut conn = zlink_core::Connection::new(sock);
    let mk = |i: usize, f: u8| Call::new(M::B { a: i as u32 }).set_oneway(f == 1 || f == 3).set_more(f == 2 || f == 3);
    let mut got = Vec::new();
    let mut prologue_expected = Vec::new();
    if prologue > 0 {
        for j in 0..prologue { let c = Call::new(M::B { a: 7000 + j as u32 }); conn.enqueue_call(&c).unwrap(); prologue_expected.extend_from_slice(&serde_json::to_vec(&c).unwrap()); prologue_expected.push(0); }
        block_on(conn.flush(), 10).unwrap();
        for _ in 0..prologue {
            match block_on(conn.receive_reply::<P, E>(), 1000) { Ok(Ok(r)) => got.push(format!("prologue:{}", r.parameters().map(|p| p.a).unwrap_or(0))), other => got.push(format!("prologue-lost:{other:?}")) }
        }
    }
    {
        let mut chain = conn.chain_call::<M, P, E>(&mk(0, flags[0])).unwrap();
        calls_expected.extend_from_slice(&serde_json::to_vec(&mk(0, flags[0])).unwrap());
        calls_expected.push(0);
        for (i, f) in flags.iter().enumerate().skip(1) {
            chain = chain.append(&mk(i, *f)).unwrap();
            calls_expected.extend_from_slice(&serde_json::to_vec(&mk(i, *f)).unwrap());
            calls_expected.push(0);
        }
        let stream = block_on(chain.send(), 10).unwrap();
        let mut stream = pin!(stream);
        let mut n = 0;
        loop {
            n += 1;
            if n > 200 { got.push("runaway".into()); break; }
            match block_on(stream.next(), 1000) {
                None => { got.push("end".into()); break; }
                Some(Ok(Ok(r))) => got.push(format!("ok:{}:{:?}", r.parameters().map(|p| p.a).unwrap_or(0), r.continues())),
                Some(Ok(Err(E::Bad { code }))) => got.push(format!("err:{code}")),
                Some(Err(zlink_core::Error::Json(_))) => got.push("decode-error".into()),
                Some(Err(e)) => got.push(format!("transport:{e:?}")),
            }
        }
    }
    match block_on(conn.receive_reply::<P, E>(), 1000) {
        Ok(Ok(r)) => got.push(format!("later:{}", r.parameters().map(|p| p.a).unwrap_or(0))),
        other => got.push(format!("later-lost:{other:?}")),
    }
    let mut log = script_h.borrow().log.clone();
    if prologue > 0 { if log.first() != Some(&prologue_expected) { got.push("prologue-writes-wrong".into()); } else { log.remove(0); } }
    if log.len() != 1 || log[0] != calls_expected {
        got.push(format!("writes:{:?}", log.iter().map(|w| show(w)).collect::<Vec<_>>()));
    }
    (expected, got)
}

fn search_chain(seed: u64, budget: usize) -> Option<Value> {
    let mut rng = Rng(seed.wrapping_mul(0x9E3779B97F4A7C15) | 1);
    for _ in 0..budget {
        let n = 1 + rng.below(5);
        let flags: Vec<u8> = (0..n).map(|_| rng.below(4) as u8).collect();
        let script: Vec<(usize, u8)> = (0..n).map(|_| (rng.below(3), if rng.below(6) == 0 { 2 } else { rng.below(2) as u8 })).collect();
        let cuts: Vec<usize> = match rng.below(3) { 0 => vec![], 1 => vec![1 + rng.below(9)], _ => (0..3).map(|_| 1 + rng.below(50)).collect() };
        let pending: Vec<usize> = if rng.below(2) == 0 { vec![] } else { (0..1 + rng.below(4)).map(|_| rng.below(12)).collect() };
        let prologue = if rng.below(4) == 0 { 1 + rng.below(3) } else { 0 };
        let (exp, got) = run_chain(&flags, &script, &cuts, &pending, prologue);
        if exp != got {
            return Some(json!({"kind":"chain","flags":flags,"script":script,"cuts":cuts,"pending_reads":pending,"prologue":prologue,"expected":exp,"got":got}));
        }
    }
    None
}

// ---------------------------------------------------------------------------------------------
// C13: IDL parser robustness: no panic; interface names follow the grammar
fn legal_interface_name(n: &str) -> bool {
    let segs: Vec<&str> = n.split('.').collect();
    if segs.len() < 2 { return false; }
    for (i, s) in segs.iter().enumerate() {
        let b = s.as_bytes();
        if b.is_empty() { return false; }
        if i == 0 && !b[0].is_ascii_alphabetic() { return false; }
        if !b[0].is_ascii_alphanumeric() || !b[b.len() - 1].is_ascii_alphanumeric() { return false; }
        if !b.iter().all(|c| c.is_ascii_alphanumeric() || *c == b'-') { return false; }
    }
    true
}
fn run_idl(text: &str) -> Option<String> {
    let t = text.to_string();
    let r = std::panic::catch_unwind(move || {
        match zlink_core::idl::Interface::try_from(t.as_str()) {
            Ok(i) => Some(i.name().to_string()),
            Err(_) => None,
        }
    });
    match r {
        Err(_) => Some("parser panicked".into()),
        Ok(Some(name)) if !legal_interface_name(&name) => Some(format!("accepted with illegal interface name {name:?}")),
        Ok(Some(_)) if text.contains("__") || text.contains("_:") || text.contains("_,") || text.contains("_)") =>
            Some("accepted a text with a doubled or trailing underscore in a field name (grammar: [A-Za-z]([_]?[A-Za-z0-9])*)".into()),
        _ => None,
    }
}

// ---------------------------------------------------------------------------------------------
// C13: grammar-driven generator.  A random interface TREE is rendered with a random LEGAL layout (whitespace between
// tokens, comment lines on their own lines before members and before parameters / fields) and parsed by the real
// parser; the parsed description must denote exactly the generating tree (names, types, order within each kind).
#[derive(Debug, Clone, PartialEq)]
enum GTy { Prim(&'static str), Custom(String), Opt(Box<GTy>), Arr(Box<GTy>), Map(Box<GTy>), Struct(Vec<(String, GTy)>), Enum(Vec<String>) }
#[derive(Debug, Clone)]
enum GMember { Type(String, GTy), Method(String, Vec<(String, GTy)>, Vec<(String, GTy)>), Error(String, Vec<(String, GTy)>) }
fn g_type_name(rng: &mut Rng) -> String {
    let up = b"ABCDEFGHIJKLMNOPQRSTUVWXYZ"; let rest = b"abcdefghijklmnopqrstuvwxyzABCDEFGHIJKLMNOPQRSTUVWXYZ0123456789";
    let mut n = String::new(); n.push(up[rng.below(up.len())] as char);
    for _ in 0..rng.below(6) { n.push(rest[rng.below(rest.len())] as char); }
    n
}
fn g_field_name(rng: &mut Rng) -> String {
    // [A-Za-z]([_]?[A-Za-z0-9])*  (single underscores only between alphanumerics: inside the grammar AND the known finding)
    let al = b"abcdefghijklmnopqrstuvwxyzABCDEFGHIJKLMNOPQRSTUVWXYZ"; let an = b"abcdefghijklmnopqrstuvwxyz0123456789XYZ";
    let mut n = String::new(); n.push(al[rng.below(al.len())] as char);
    for _ in 0..rng.below(6) { if rng.below(5) == 0 { n.push('_'); } n.push(an[rng.below(an.len())] as char); }
    n
}
fn g_ty(rng: &mut Rng, depth: usize, allow_opt: bool) -> GTy {
    let k = if depth == 0 { rng.below(6) } else { rng.below(11) };
    match k {
        0 => GTy::Prim("bool"), 1 => GTy::Prim("int"), 2 => GTy::Prim("float"), 3 => GTy::Prim("string"), 4 => GTy::Prim("object"),
        5 => GTy::Custom(g_type_name(rng)),
        6 if allow_opt => GTy::Opt(Box::new(g_ty(rng, depth - 1, false))),
        6 | 7 => GTy::Arr(Box::new(g_ty(rng, depth - 1, true))),
        8 => GTy::Map(Box::new(g_ty(rng, depth - 1, true))),
        9 => GTy::Struct((0..rng.below(4)).map(|_| (g_field_name(rng), g_ty(rng, depth - 1, true))).collect()),
        _ => GTy::Enum((0..1 + rng.below(4)).map(|_| g_field_name(rng)).collect()),
    }
}
fn g_gap(rng: &mut Rng, must: bool) -> &'static str {
    if must { [" ", "  ", "\t", " \t "][rng.below(4)] } else { ["", "", " ", "\n", "\t", "  ", "\n    ", " \n"][rng.below(8)] }
}
fn g_comment(rng: &mut Rng, out: &mut String, fancy: bool) {
    // comment lines on their own lines; `fancy` comments contain punctuation of the grammar
    for _ in 0..rng.below(3) {
        let c = if fancy { ["# a) note: x", "# (", "#", "# -> ,", "#:)", "# na\u{ef}ve \u{2013} gr\u{fc}n", "#   "][rng.below(7)] } else { ["# plain note", "#", "# Another one"][rng.below(3)] };
        out.push_str(c); out.push('\n'); out.push_str(["", "  ", "\t"][rng.below(3)]);
    }
}
fn g_render_ty(t: &GTy, rng: &mut Rng, out: &mut String, layout: u8) {
    match t {
        GTy::Prim(p) => out.push_str(p), GTy::Custom(n) => out.push_str(n),
        GTy::Opt(i) => { out.push('?'); g_render_ty(i, rng, out, layout); }
        GTy::Arr(i) => { out.push_str("[]"); g_render_ty(i, rng, out, layout); }
        GTy::Map(i) => { out.push_str("[string]"); g_render_ty(i, rng, out, layout); }
        GTy::Struct(fs) => g_render_fields(fs, rng, out, layout),
        GTy::Enum(vs) => {
            out.push('('); if layout > 0 { out.push_str(g_gap(rng, false)); }
            for (i, v) in vs.iter().enumerate() {
                if i > 0 { if layout > 0 { out.push_str(g_gap(rng, false)); } out.push(','); if layout > 0 { out.push_str(g_gap(rng, false)); } else { out.push(' '); } }
                if layout > 2 && rng.below(3) == 0 { out.push('\n'); g_comment(rng, out, true); }
                out.push_str(v);
            }
            if layout > 0 { out.push_str(g_gap(rng, false)); } out.push(')');
        }
    }
}
fn g_render_fields(fs: &[(String, GTy)], rng: &mut Rng, out: &mut String, layout: u8) {
    out.push('('); if layout > 0 { out.push_str(g_gap(rng, false)); }
    for (i, (n, t)) in fs.iter().enumerate() {
        if i > 0 { if layout > 0 { out.push_str(g_gap(rng, false)); } out.push(','); if layout > 0 { out.push_str(g_gap(rng, false)); } else { out.push(' '); } }
        if layout > 1 && rng.below(3) == 0 { out.push('\n'); g_comment(rng, out, layout > 2); }
        out.push_str(n); if layout > 0 { out.push_str(g_gap(rng, false)); } out.push(':'); if layout > 0 { out.push_str(g_gap(rng, false)); } else { out.push(' '); }
        g_render_ty(t, rng, out, layout);
    }
    if layout > 0 { out.push_str(g_gap(rng, false)); } out.push(')');
}
fn g_render(name: &str, members: &[GMember], rng: &mut Rng, layout: u8) -> String {
    let mut out = String::new();
    if layout > 1 { g_comment(rng, &mut out, false); }
    out.push_str("interface"); out.push_str(g_gap(rng, true)); out.push_str(name); out.push('\n');
    for m in members {
        out.push_str(["", "\n", "  ", "\n\n"][rng.below(4)]);
        if layout > 1 { g_comment(rng, &mut out, false); }
        match m {
            GMember::Type(n, t) => { out.push_str("type"); out.push_str(g_gap(rng, true)); out.push_str(n); out.push_str(if layout > 0 { g_gap(rng, false) } else { " " }); g_render_ty(t, rng, &mut out, layout); }
            GMember::Method(n, i, o) => { out.push_str("method"); out.push_str(g_gap(rng, true)); out.push_str(n); if layout > 0 { out.push_str(g_gap(rng, false)); }
                g_render_fields(i, rng, &mut out, layout); out.push_str(if layout > 0 { g_gap(rng, false) } else { " " }); out.push_str("->"); out.push_str(if layout > 0 { g_gap(rng, false) } else { " " }); g_render_fields(o, rng, &mut out, layout); }
            GMember::Error(n, f) => { out.push_str("error"); out.push_str(g_gap(rng, true)); out.push_str(n); out.push_str(if layout > 0 { g_gap(rng, false) } else { " " }); g_render_fields(f, rng, &mut out, layout); }
        }
        out.push('\n');
    }
    // the grammar's `_` allows comment lines behind the last member (and in an interface without members)
    if layout > 1 && rng.below(3) == 0 { g_comment(rng, &mut out, layout > 2); }
    out
}
fn g_canon_ty(t: &GTy) -> String {
    match t {
        GTy::Prim(p) => p.to_string(), GTy::Custom(n) => format!("@{n}"),
        GTy::Opt(i) => format!("?{}", g_canon_ty(i)), GTy::Arr(i) => format!("[]{}", g_canon_ty(i)), GTy::Map(i) => format!("[string]{}", g_canon_ty(i)),
        GTy::Struct(fs) => format!("({})", fs.iter().map(|(n, t)| format!("{n}:{}", g_canon_ty(t))).collect::<Vec<_>>().join(",")),
        GTy::Enum(vs) => format!("<{}>", vs.join("|")),
    }
}
fn p_canon_ty(t: &zlink_core::idl::Type<'_>) -> String {
    use zlink_core::idl::Type as T;
    match t {
        T::Bool => "bool".into(), T::Int => "int".into(), T::Float => "float".into(), T::String => "string".into(), T::ForeignObject => "object".into(),
        T::Custom(n) => format!("@{n}"),
        T::Optional(i) => format!("?{}", p_canon_ty(i.inner())), T::Array(i) => format!("[]{}", p_canon_ty(i.inner())), T::Map(i) => format!("[string]{}", p_canon_ty(i.inner())),
        T::Object(fs) => format!("({})", fs.iter().map(|f| format!("{}:{}", f.name(), p_canon_ty(f.ty()))).collect::<Vec<_>>().join(",")),
        T::Enum(vs) => format!("<{}>", vs.iter().map(|v| v.name().to_string()).collect::<Vec<_>>().join("|")),
        #[allow(unreachable_patterns)]
        _ => "<?>".into(),
    }
}
fn g_canon(name: &str, members: &[GMember]) -> String {
    let fl = |fs: &Vec<(String, GTy)>| fs.iter().map(|(n, t)| format!("{n}:{}", g_canon_ty(t))).collect::<Vec<_>>().join(",");
    let mut m = vec![]; let mut t = vec![]; let mut e = vec![];
    for x in members { match x {
        // a `type` whose definition is a struct / enum is a custom object / enum; the empty struct `()` is a struct
        GMember::Type(n, GTy::Struct(fs)) => t.push(format!("T {n}({})", fl(fs))),
        GMember::Type(n, GTy::Enum(vs)) => t.push(format!("T {n}<{}>", vs.join("|"))),
        GMember::Type(n, other) => t.push(format!("T {n}={}", g_canon_ty(other))),
        GMember::Method(n, i, o) => m.push(format!("M {n}({})->({})", fl(i), fl(o))),
        GMember::Error(n, f) => e.push(format!("E {n}({})", fl(f))),
    } }
    format!("{name}|{}|{}|{}", m.join(";"), t.join(";"), e.join(";"))
}
fn p_canon(i: &zlink_core::idl::Interface<'_>) -> String {
    let m: Vec<String> = i.methods().map(|m| format!("M {}({})->({})", m.name(),
        m.inputs().map(|p| format!("{}:{}", p.name(), p_canon_ty(p.ty()))).collect::<Vec<_>>().join(","),
        m.outputs().map(|p| format!("{}:{}", p.name(), p_canon_ty(p.ty()))).collect::<Vec<_>>().join(","))).collect();
    let t: Vec<String> = i.custom_types().map(|t| {
        if let Some(o) = t.as_object() { format!("T {}({})", o.name(), o.fields().map(|f| format!("{}:{}", f.name(), p_canon_ty(f.ty()))).collect::<Vec<_>>().join(",")) }
        else if let Some(e) = t.as_enum() { format!("T {}<{}>", e.name(), e.variants().map(|v| v.name().to_string()).collect::<Vec<_>>().join("|")) }
        else { format!("T {}=?", t.name()) }
    }).collect();
    let e: Vec<String> = i.errors().map(|e| format!("E {}({})", e.name(), e.fields().map(|f| format!("{}:{}", f.name(), p_canon_ty(f.ty()))).collect::<Vec<_>>().join(","))).collect();
    format!("{}|{}|{}|{}", i.name(), m.join(";"), t.join(";"), e.join(";"))
}
/// returns Some(why) when the real parser does not build the generating tree from `text`
fn run_idl_tree(text: &str, expect: &str) -> Option<String> {
    let t = text.to_string();
    let r = std::panic::catch_unwind(move || zlink_core::idl::Interface::try_from(t.as_str()).map(|i| p_canon(&i)).map_err(|e| e.to_string()));
    match r {
        Err(_) => Some("parser panicked on a legal text".into()),
        Ok(Err(e)) => Some(format!("legal text rejected: {e}")),
        Ok(Ok(c)) if c != expect => Some(format!("parsed description differs from the generating tree:\n  expected {expect}\n  got      {c}")),
        Ok(Ok(_)) => None,
    }
}
fn search_idl_tree(rng: &mut Rng, budget: usize) -> Option<Value> {
    for it in 0..budget {
        let name = ["org.example.test", "a.b", "a-b.c-d", "x.1y", "io.systemd.v1"][rng.below(5)];
        let depth = rng.below(4);
        let members: Vec<GMember> = (0..rng.below(6)).map(|_| match rng.below(3) {
            0 => { let t = if rng.below(2) == 0 { GTy::Struct((0..rng.below(4)).map(|_| (g_field_name(rng), g_ty(rng, depth, true))).collect()) } else { GTy::Enum((0..1 + rng.below(4)).map(|_| g_field_name(rng)).collect()) }; GMember::Type(g_type_name(rng), t) }
            1 => GMember::Method(g_type_name(rng), (0..rng.below(4)).map(|_| (g_field_name(rng), g_ty(rng, depth, true))).collect(), (0..rng.below(3)).map(|_| (g_field_name(rng), g_ty(rng, depth, true))).collect()),
            _ => GMember::Error(g_type_name(rng), (0..rng.below(3)).map(|_| (g_field_name(rng), g_ty(rng, depth, true))).collect()),
        }).collect();
        // layout 0: canonical single spaces; 1: random whitespace; 2: + plain comment lines before members / fields
        // 3: + comment lines before enum variants, comments containing the grammar's punctuation
        let layout = (it % 4) as u8;
        let text = g_render(name, &members, rng, layout);
        let expect = g_canon(name, &members);
        if let Some(why) = run_idl_tree(&text, &expect) {
            return Some(json!({"kind":"idl_tree","text":text,"expect":expect,"layout":layout,"why":why}));
        }
        // blank lines between comment lines are whitespace: a text and its copy with an empty line behind every comment line
        // denote the same description, comments included (compared through the accessors: rt_dump)
        if layout >= 2 {
            let mut t1 = String::with_capacity(text.len() + 32);
            for line in text.split_inclusive('\n') {
                t1.push_str(line);
                if line.trim_start().starts_with('#') && line.ends_with('\n') { t1.push_str(["\n", "\n\n", " \n", "\n\t\n"][rng.below(4)]); }
            }
            let (a, b) = (text.clone(), t1.clone());
            let r = std::panic::catch_unwind(move || (zlink_core::idl::Interface::try_from(leak(a)).map(|i| rt_dump(&i)).map_err(|e| e.to_string()),
                                                       zlink_core::idl::Interface::try_from(leak(b)).map(|i| rt_dump(&i)).map_err(|e| e.to_string())));
            match r {
                Ok((Ok(d0), Ok(d1))) if d0 == d1 => {}
                Ok((d0, d1)) => return Some(json!({"kind":"idl_blank","text":text,"text_with_blank_lines":t1,"why":format!("an empty line behind a comment line changed the description:\n  without: {d0:?}\n  with:    {d1:?}")})),
                Err(_) => return Some(json!({"kind":"idl_blank","text":text,"text_with_blank_lines":t1,"why":"parser panicked"})),
            }
        }
        // outside comments the grammar is ASCII: a legal text without comments with one non-ASCII character put anywhere
        // inside it (name, keyword, punctuation, gap) must be rejected - and never panic
        if layout <= 1 && text.len() > 12 {
            let pos = 10 + rng.below(text.len() - 11);
            let ch = ["\u{e9}", "\u{fc}", "\u{b5}", "\u{aa}", "\u{8a9e}", "\u{f1}"][rng.below(6)];
            let mut t = String::with_capacity(text.len() + 4);
            t.push_str(&text[..pos]); t.push_str(ch); t.push_str(&text[pos..]);
            let t2 = t.clone();
            match std::panic::catch_unwind(move || zlink_core::idl::Interface::try_from(t2.as_str()).is_ok()) {
                Ok(false) => {}
                Ok(true) => return Some(json!({"kind":"idl_reject","text":t,"why":"a text with a non-ASCII character outside a comment was accepted"})),
                Err(_) => return Some(json!({"kind":"idl_reject","text":t,"why":"parser panicked"})),
            }
        }
    }
    None
}
fn search_idl(seed: u64, budget: usize) -> Option<Value> {
    std::panic::set_hook(Box::new(|_| {}));
    let mut rng = Rng(seed.wrapping_mul(0x9E3779B97F4A7C15) | 1);
    // legal names must be accepted and returned unchanged
    for n in ["org.example.test", "a.b", "a-b.c-d", "x.1y", "com.3com.net", "org.example.2fa", "io.systemd.v1.0", "a--b.c", "A.B9", "a.0"] {
        let t = format!("interface {n}\n\nmethod Get(id: int) -> (ok: bool)\n");
        let t2 = t.clone();
        let r = std::panic::catch_unwind(move || zlink_core::idl::Interface::try_from(t2.as_str()).map(|i| i.name().to_string()).map_err(|e| e.to_string()));
        match r {
            Ok(Ok(name)) if name == n => {}
            Ok(other) => return Some(json!({"kind":"idl_legal","text":t,"name":n,"why":format!("legal interface text rejected or mis-named: {other:?}")})),
            Err(_) => return Some(json!({"kind":"idl_legal","text":t,"name":n,"why":"parser panicked"})),
        }
    }
    // legal layouts: every member must end up in the tree
    for (t, nm, nt, ne) in [
        ("interface a.b\n# doc\n#\nmethod Ping() -> ()\n", 1usize, 0usize, 0usize),
        ("# top\n#\ninterface a.b\n\ntype T (x: int)\n#\n# second\nerror E ()\nmethod M(a: T) -> (b: ?T)\n", 1, 1, 1),
        ("interface a.b\nmethod A() -> ()\n  # c1\n\tmethod B(\n  # p\n  x: int\n) -> ()\ntype E (a, b)\n", 2, 1, 0),
    ] {
        let t2 = t.to_string();
        let r = std::panic::catch_unwind(move || zlink_core::idl::Interface::try_from(t2.as_str()).map(|i| (i.methods().count(), i.custom_types().count(), i.errors().count())).map_err(|e| e.to_string()));
        match r {
            Ok(Ok(c)) if c == (nm, nt, ne) => {}
            Ok(other) => return Some(json!({"kind":"idl_members","text":t,"expect":[nm,nt,ne],"why":format!("legal text: expected (methods, types, errors) = {:?}, got {other:?}", (nm, nt, ne))})),
            Err(_) => return Some(json!({"kind":"idl_members","text":t,"expect":[nm,nt,ne],"why":"parser panicked"})),
        }
    }
    // texts outside the grammar must be rejected: members cut short at every token, prefix operators doubled
    for head in ["interface a.b\n", "interface a.b\nmethod A() -> ()\n", "interface a.b\ntype T (a: int)\n# c\nerror E ()\n"] {
        for tail in ["error", "error E", "error E (", "error E (a", "error E (a:", "error E (a: int", "error E (a: int,", "method", "method M", "method M(", "method M()", "method M() ->", "method M() -> (",
                     "type", "type T", "type T (", "type T (a,", "method M(a: ??int) -> ()", "method M(a: []??int) -> ()", "type T (a: ?[string]??bool)", "method M() -> (r: ? int)",
                     "type T (a: int, b)", "type T (a, b: int)", "type T (a,)", "type T (a: int,)", "method M(a: int,) -> ()", "method M() -> (a: int, )", "error E (a: int,)",
                     "method M(a: (x: int,)) -> ()", "method M(a: (x,)) -> ()", "method M(a: (x: int y: int)) -> ()", "method M(a: (x y)) -> ()", "method M(a: (,)) -> ()", "method M(a: (x: int, y)) -> ()"] {
            let t = format!("{head}{tail}");
            let t2 = t.clone();
            let r = std::panic::catch_unwind(move || zlink_core::idl::Interface::try_from(t2.as_str()).is_ok());
            match r {
                Ok(false) => {}
                Ok(true) => return Some(json!({"kind":"idl_reject","text":t,"why":"a text outside the grammar (member cut short / doubled `?`) was accepted"})),
                Err(_) => return Some(json!({"kind":"idl_reject","text":t,"why":"parser panicked"})),
            }
        }
    }
    let names = ["org.example.test", "a.b", "org.example.", "a-b.c-d", "a.b.", "x.y-", "x.1y", "com.3com.net"];
    let types = ["int", "?string", "[]bool", "[string]int", "(a: int)", "(x, y)", "", ")", "(", "(a:)", "( )", "Foo", "(a: (b: int))"];
    for _ in 0..budget {
        let mut t = format!("interface {}\n", names[rng.below(names.len())]);
        for _ in 0..rng.below(3) {
            match rng.below(3) {
                0 => t.push_str(&format!("method M{}(a: {}) -> (r: {})\n", rng.below(9), types[rng.below(types.len())], types[rng.below(types.len())])),
                1 => t.push_str(&format!("type T{} {}\n", rng.below(9), types[rng.below(types.len())])),
                _ => t.push_str(&format!("error E{} (f: {})\n", rng.below(9), types[rng.below(types.len())])),
            }
        }
        if rng.below(4) == 0 { let cut = rng.below(t.len() + 1); t.truncate(cut); }
        if let Some(why) = run_idl(&t) {
            return Some(json!({"kind":"idl","text":t,"why":why}));
        }
    }
    search_idl_tree(&mut rng, budget / 4)
}

// ---------------------------------------------------------------------------------------------
// C14: render -> parse -> compare.  A random interface description is BUILT with the crate's public constructors (comments
// on the interface, members, direct fields / parameters and custom-enum variants; inline types without comments), rendered
// with Display, parsed back by the real parser, and the two descriptions are compared through the public accessors,
// comments included (the crate's own PartialEq impls ignore comments); the parsed description must render to the same text.
fn leak(s: String) -> &'static str { Box::leak(s.into_boxed_str()) }
fn rt_comments(rng: &mut Rng, max: usize) -> Vec<String> {
    (0..rng.below(max + 1)).map(|_| ["plain note", "", "a) note: x -> (y, z)", "na\u{ef}ve \u{2013} gr\u{fc}n", "TODO", "x  y", "# Errors", "## Layout", "#1 first"][rng.below(9)].to_string()).collect()
}
fn rt_type(t: &GTy) -> zlink_core::idl::Type<'static> {
    use zlink_core::idl::{EnumVariant, Field, List, Type, TypeRef};
    match t {
        GTy::Prim("bool") => Type::Bool, GTy::Prim("int") => Type::Int, GTy::Prim("float") => Type::Float, GTy::Prim("string") => Type::String, GTy::Prim(_) => Type::ForeignObject,
        GTy::Custom(n) => Type::Custom(leak(n.clone())),
        GTy::Opt(i) => Type::Optional(TypeRef::new_owned(rt_type(i))), GTy::Arr(i) => Type::Array(TypeRef::new_owned(rt_type(i))), GTy::Map(i) => Type::Map(TypeRef::new_owned(rt_type(i))),
        GTy::Struct(fs) => Type::Object(List::from(fs.iter().map(|(n, t)| Field::new_owned(leak(n.clone()), rt_type(t), vec![])).collect::<Vec<_>>())),
        GTy::Enum(vs) => Type::Enum(List::from(vs.iter().map(|n| EnumVariant::new_owned(leak(n.clone()), vec![])).collect::<Vec<_>>())),
    }
}
fn rt_dump_ty(t: &zlink_core::idl::Type<'_>) -> String {
    use zlink_core::idl::Type as T;
    match t {
        T::Object(fs) => format!("({})", fs.iter().map(|f| format!("{:?}{}:{}", f.comments().map(|c| c.text().to_string()).collect::<Vec<_>>(), f.name(), rt_dump_ty(f.ty()))).collect::<Vec<_>>().join(",")),
        T::Enum(vs) => format!("<{}>", vs.iter().map(|v| format!("{:?}{}", v.comments().map(|c| c.text().to_string()).collect::<Vec<_>>(), v.name())).collect::<Vec<_>>().join("|")),
        T::Optional(i) => format!("?{}", rt_dump_ty(i.inner())), T::Array(i) => format!("[]{}", rt_dump_ty(i.inner())), T::Map(i) => format!("[string]{}", rt_dump_ty(i.inner())),
        other => p_canon_ty(other),
    }
}
fn rt_dump(i: &zlink_core::idl::Interface<'_>) -> String {
    use zlink_core::idl::CustomType;
    let cs = |it: &mut dyn Iterator<Item = String>| format!("{:?}", it.collect::<Vec<_>>());
    let fl = |it: &mut dyn Iterator<Item = &zlink_core::idl::Field<'_>>| it.map(|f| format!("{:?}{}:{}", f.comments().map(|c| c.text().to_string()).collect::<Vec<_>>(), f.name(), rt_dump_ty(f.ty()))).collect::<Vec<_>>().join(",");
    let mut out = format!("{} {}\n", cs(&mut i.comments().map(|c| c.text().to_string())), i.name());
    for t in i.custom_types() { match t {
        CustomType::Object(o) => out.push_str(&format!("T {} {} ({})\n", cs(&mut o.comments().map(|c| c.text().to_string())), o.name(), fl(&mut o.fields()))),
        CustomType::Enum(e) => out.push_str(&format!("T {} {} <{}>\n", cs(&mut e.comments().map(|c| c.text().to_string())), e.name(),
            e.variants().map(|v| format!("{:?}{}", v.comments().map(|c| c.text().to_string()).collect::<Vec<_>>(), v.name())).collect::<Vec<_>>().join("|"))),
    } }
    for m in i.methods() { out.push_str(&format!("M {} {} ({}) -> ({})\n", cs(&mut m.comments().map(|c| c.text().to_string())), m.name(), fl(&mut m.inputs()), fl(&mut m.outputs()))); }
    for e in i.errors() { out.push_str(&format!("E {} {} ({})\n", cs(&mut e.comments().map(|c| c.text().to_string())), e.name(), fl(&mut e.fields()))); }
    out
}
/// one case; `commented_variants`: custom enums may carry comments on their variants (the class of the known finding)
fn run_idl_rt(seed: u64, commented_variants: bool) -> Option<(String, String)> {
    use zlink_core::idl::{Comment, CustomEnum, CustomObject, CustomType, EnumVariant, Error, Field, Interface, Method};
    let mut rng = Rng(seed.wrapping_mul(0x9E3779B97F4A7C15) | 1);
    let rng = &mut rng;
    let cm = |v: Vec<String>| v.into_iter().map(|c| Comment::new(leak(c))).collect::<Vec<_>>();
    let depth = rng.below(5);
    let name = ["org.example.test", "a.b", "a-b.c-d", "x.1y", "io.systemd.v1"][rng.below(5)];
    let mut fields = |rng: &mut Rng, n: usize| (0..rng.below(n + 1)).map(|_| { let c = rt_comments(rng, 2); Field::new_owned(leak(g_field_name(rng)), rt_type(&g_ty(rng, depth, true)), c.into_iter().map(|c| Comment::new(leak(c))).collect()) }).collect::<Vec<_>>();
    let mut methods = vec![]; let mut types = vec![]; let mut errors = vec![];
    for _ in 0..rng.below(5) {
        match rng.below(4) {
            0 => { let fs = fields(rng, 3); types.push(CustomType::from(CustomObject::new_owned(leak(g_type_name(rng)), fs, cm(rt_comments(rng, 2))))); }
            1 => { let nv = if rng.below(6) == 0 { 8 + rng.below(25) } else { 1 + rng.below(3) };   // now and then a long enum (a wide line)
                   let vs = (0..nv).map(|_| EnumVariant::new_owned(leak(g_field_name(rng)), if commented_variants && rng.below(2) == 0 { cm(rt_comments(rng, 2)) } else { vec![] })).collect::<Vec<_>>();
                   types.push(CustomType::from(CustomEnum::new_owned(leak(g_type_name(rng)), vs, cm(rt_comments(rng, 2))))); }
            2 => { let (i, o) = (fields(rng, 3), fields(rng, 2)); methods.push(Method::new_owned(leak(g_type_name(rng)), i, o, cm(rt_comments(rng, 2)))); }
            _ => { let fs = fields(rng, 2); errors.push(Error::new_owned(leak(g_type_name(rng)), fs, cm(rt_comments(rng, 2)))); }
        }
    }
    let iface = Interface::new_owned(name, methods, types, errors, cm(rt_comments(rng, 2)));
    let text = iface.to_string();
    let want = rt_dump(&iface);
    let t2 = text.clone();
    let r = std::panic::catch_unwind(move || Interface::try_from(leak(t2)).map(|p| (rt_dump(&p), p.to_string())).map_err(|e| e.to_string()));
    let why = match r {
        Err(_) => Some("the parser panicked on a rendered description".to_string()),
        Ok(Err(e)) => Some(format!("the rendered description does not parse: {e}")),
        Ok(Ok((got, _))) if got != want => Some(format!("parse(render(x)) differs from x:\n  x      = {want}\n  parsed = {got}")),
        Ok(Ok((_, again))) if again != text => Some(format!("render(parse(render(x))) differs from render(x):\n{again}")),
        Ok(Ok(_)) => None,
    };
    why.map(|w| (text, w))
}
fn search_idl_rt(seed: u64, budget: usize) -> Option<Value> {
    std::panic::set_hook(Box::new(|_| {}));
    for k in 0..budget as u64 {
        let s = seed.wrapping_mul(1_000_003).wrapping_add(k);
        // custom enums with commented variants are the class of the recorded finding (rendered without commas): skipped here
        if let Some((text, why)) = run_idl_rt(s, false) {
            return Some(json!({"kind":"idl_rt","case_seed":s,"commented_variants":false,"text":text,"why":why}));
        }
    }
    None
}

// ---------------------------------------------------------------------------------------------
// C02 / C17 outbound: histories of enqueue/send/flush against the write log of the transport
#[derive(Debug)]
struct BadKey(usize);
impl Serialize for BadKey {
    fn serialize<S: serde::Serializer>(&self, s: S) -> Result<S::Ok, S::Error> {
        use serde::ser::SerializeMap;
        let mut m = s.serialize_map(Some(3))?;
        m.serialize_entry("error", "a.Bad")?;
        // a refused message may already have written any amount of its document into the spare buffer space
        m.serialize_entry("pad", &"y".repeat(self.0))?;
        m.serialize_entry(&true, &1)?; // bool key: refused by zlink's serializer
        m.end()
    }
}
/// the string payload of a message of `size`: mostly plain, but (a function of the size alone, so that a witness replays) now
/// and then with a character that JSON must escape - U+0000 above all: a NUL that reaches the wire inside a document is a
/// second terminator (C02: exactly ONE NUL per message) - or a multi-byte one
fn send_payload(size: usize) -> String {
    let mut p = "x".repeat(size);
    if size >= 2 && size % 5 == 3 {
        let c = ['\u{0}', '\u{1}', '"', '\\', '\n', '\u{e9}', '\u{1f}', '\u{7f}'][(size / 5) % 8];
        let at = size / 2;
        p.replace_range(at..at + 1, &c.to_string());
    }
    p
}
/// ops: (kind, size)   kind 0 enqueue_call, 1 send_call, 2 send_reply, 3 send_error, 4 flush, 5 send refused, 6 enqueue... of size
fn run_send(ops: &[(u8, usize)]) -> (Vec<String>, Vec<String>) {
    let sock = ScriptedSocket::new(&[], &[]);
    let script = sock.0.clone();
    let mut conn = zlink_core::Connection::new(sock);
    let mut pending: Vec<u8> = Vec::new();
    let mut expected: Vec<Vec<u8>> = Vec::new();
    let frame = |v: Vec<u8>| { let mut f = v; f.push(0); f };
    for (k, size) in ops {
        let payload = send_payload(*size);
        match k {
            // every message here is far below the 100 MiB limit: it must be ACCEPTED (a refusal of an acceptable message is a failure)
            0 => { let c = Call::new(M::S { s: payload }); match conn.enqueue_call(&c) { Ok(_) => pending.extend(frame(serde_json::to_vec(&c).unwrap())), Err(e) => expected.push(format!("<acceptable call of {size} payload bytes refused: {e:?}>").into_bytes()) } }
            1 => { let c = Call::new(M::S { s: payload }); match block_on(conn.send_call(&c), 10) { Ok(_) => { pending.extend(frame(serde_json::to_vec(&c).unwrap())); expected.push(std::mem::take(&mut pending)); } Err(e) => expected.push(format!("<acceptable call of {size} payload bytes refused: {e:?}>").into_bytes()) } }
            2 => { let r = Reply::new(Some(M::S { s: payload })).set_continues(Some(true)); match block_on(conn.send_reply(&r), 10) { Ok(_) => { pending.extend(frame(serde_json::to_vec(&r).unwrap())); expected.push(std::mem::take(&mut pending)); } Err(e) => expected.push(format!("<acceptable reply refused: {e:?}>").into_bytes()) } }
            3 => { let e = E::Bad { code: *size as u32 }; match block_on(conn.send_error(&e), 10) { Ok(_) => { pending.extend(frame(serde_json::to_vec(&e).unwrap())); expected.push(std::mem::take(&mut pending)); } Err(x) => expected.push(format!("<acceptable error reply refused: {x:?}>").into_bytes()) } }
            4 => { let _ = block_on(conn.flush(), 10); if !pending.is_empty() { expected.push(std::mem::take(&mut pending)); } }
            _ => { let r = block_on(conn.send_error(&BadKey(*size)), 10); if r.is_ok() { expected.push(b"<refused message was accepted>".to_vec()); } }
        }
    }
    let _ = block_on(conn.flush(), 10);
    if !pending.is_empty() { expected.push(std::mem::take(&mut pending)); }
    let got = script.borrow().log.clone();
    let short = |v: &Vec<Vec<u8>>| v.iter().map(|w| { let s = show(w); if s.len() > 60 { format!("{}..({} bytes)..{}", &s[..24], w.len(), &s[s.len() - 24..]) } else { s } }).collect::<Vec<_>>();
    if got == expected { (vec![], vec![]) } else { (short(&expected), short(&got)) }
}
fn search_send(seed: u64, budget: usize) -> Option<Value> {
    std::panic::set_hook(Box::new(|_| {}));
    let mut rng = Rng(seed.wrapping_mul(0x9E3779B97F4A7C15) | 1);
    // the JSON envelope of a call with an s-payload of n bytes is n + 40 bytes: choose sizes so that documents
    // end at, just before and just after multiples of the 256-byte growth step
    let overhead = serde_json::to_vec(&Call::new(M::S { s: String::new() })).unwrap().len();
    for _ in 0..budget {
        let n = 1 + rng.below(6);
        let ops: Vec<(u8, usize)> = (0..n).map(|_| {
            let k = [0u8, 0, 1, 2, 3, 4, 5][rng.below(7)];
            let target = 256 * (1 + rng.below(4)) + [0usize, 1, 2, 255, 254, 128][rng.below(6)];
            // now and then a document of several KiB (or tens of KiB): whatever the buffer does once it has grown (shrinking,
            // reallocating) must not lose what is still pending
            let size = match rng.below(9) { 0 | 1 => rng.below(40), 2 | 3 => target.saturating_sub(overhead), 4 => 3000 + rng.below(7000), 5 if rng.below(4) == 0 => 20000 + rng.below(60000), _ => target.saturating_sub(overhead + rng.below(3)) };
            (k, size)
        }).collect();
        let ops2 = ops.clone();
        let (exp, got) = match std::panic::catch_unwind(move || run_send(&ops2)) {
            Ok(x) => x,
            Err(_) => (vec!["(no panic)".to_string()], vec!["PANIC inside enqueue/send/flush".to_string()]),
        };
        if exp != got {
            return Some(json!({"kind":"send","ops":ops,"expected_writes":exp,"got_writes":got}));
        }
    }
    None
}

// ---------------------------------------------------------------------------------------------
// C05 (call envelope): encode / decode of Call<M> against the schema, on the real code through serde_json.
// m: 0 = B{a}, 1 = C, 2 = S{s}, 3 = T{n};  flags: Some(true) / Some(false) / None (absent) per flag for decoding;
// order: a permutation seed for the members of the object handed to the decoder
fn call_method(m: u8, x: u32) -> M {
    match m { 0 => M::B { a: x }, 1 => M::C, 2 => M::S { s: format!("s{x}") }, _ => M::T { n: x } }
}
fn run_call_t<T: Serialize + serde::de::DeserializeOwned + PartialEq + std::fmt::Debug + Clone>(method: T, flags: [Option<bool>; 3], order: u64) -> Option<String> {
    let names = ["oneway", "more", "upgrade"];
    // (1) encoding: ONE object = the method's own members + each flag exactly when set, as `true`
    let set = |k: usize| flags[k] == Some(true);
    let c = Call::new(method.clone()).set_oneway(set(0)).set_more(set(1)).set_upgrade(set(2));
    let got = match serde_json::to_value(&c) { Ok(v) => v, Err(e) => return Some(format!("encoding failed: {e}")) };
    let mut want = serde_json::to_value(&method).unwrap();
    for k in 0..3 { if set(k) { want.as_object_mut().unwrap().insert(names[k].to_string(), Value::Bool(true)); } }
    if got != want { return Some(format!("encoding: got {got} want {want}")); }
    let text = serde_json::to_string(&c).unwrap();
    let members: Vec<String> = want.as_object().unwrap().keys().cloned().collect();
    if text.matches("\"oneway\"").count() + text.matches("\"more\"").count() + text.matches("\"upgrade\"").count() != (0..3).filter(|k| set(*k)).count() {
        return Some(format!("encoding writes a flag member more than once or when unset: {text}"));
    }
    let _ = members;
    // (2) decoding: flags in any position, explicit false allowed, absent = false, hidden from the method type
    let mut entries: Vec<(String, Value)> = serde_json::to_value(&method).unwrap().as_object().unwrap().iter().map(|(k, v)| (k.clone(), v.clone())).collect();
    for k in 0..3 { if let Some(b) = flags[k] { entries.push((names[k].to_string(), Value::Bool(b))); } }
    let mut o = order;
    for i in (1..entries.len()).rev() { let j = (o % (i as u64 + 1)) as usize; o /= i as u64 + 1; entries.swap(i, j); }
    let doc = format!("{{{}}}", entries.iter().map(|(k, v)| format!("{}:{}", serde_json::to_string(k).unwrap(), v)).collect::<Vec<_>>().join(","));
    let d: Call<T> = match serde_json::from_str(&doc) { Ok(d) => d, Err(e) => return Some(format!("decoding {doc} failed: {e}")) };
    let wantf = [flags[0].unwrap_or(false), flags[1].unwrap_or(false), flags[2].unwrap_or(false)];
    if *d.method() != method || [d.oneway(), d.more(), d.upgrade()] != wantf {
        return Some(format!("decoding {doc}: got method {:?} flags {:?}, want {:?} {:?}", d.method(), [d.oneway(), d.more(), d.upgrade()], method, wantf));
    }
    // (3) round trip
    let back: Call<T> = match serde_json::from_str(&text) { Ok(d) => d, Err(e) => return Some(format!("round trip of {text} failed: {e}")) };
    if *back.method() != method || [back.oneway(), back.more(), back.upgrade()] != [set(0), set(1), set(2)] {
        return Some(format!("round trip of {text}: got {:?} {:?}", back.method(), [back.oneway(), back.more(), back.upgrade()]));
    }
    None
}
/// method types that are NOT the usual {method, parameters} tagged enum: the envelope code must hand them every member that
/// is not a flag ("whatever the method type")
#[derive(Debug, Deserialize, Serialize, PartialEq, Clone)]
struct PlainM { id: u32, name: String }
#[derive(Debug, Deserialize, Serialize, PartialEq, Clone)]
struct EnvelopeM { method: String, parameters: P, trace_id: u32 }
#[derive(Debug, Deserialize, Serialize, PartialEq, Clone)]
#[serde(deny_unknown_fields)]
struct StrictM { method: String }
#[derive(Debug, Clone, PartialEq, Serialize, Deserialize)]
#[serde(untagged)]
enum UntaggedM { B(EnvelopeM), Other { other: u32 } }
fn run_call(m: u8, x: u32, flags: [Option<bool>; 3], order: u64) -> Option<String> {
    match m {
        0..=3 => run_call_t(call_method(m, x), flags, order),
        4 => run_call_t(PlainM { id: x, name: format!("n{x}") }, flags, order),
        5 => run_call_t(EnvelopeM { method: "a.B".into(), parameters: P { a: x }, trace_id: x ^ 7 }, flags, order),
        // method types that read their members ENTRY by entry (MapAccess::next_entry*: maps, serde_json::Value, and - through
        // serde's buffering - untagged / internally tagged enums) instead of key by key
        7 => { let mut mm = std::collections::BTreeMap::new(); mm.insert("method".to_string(), json!("a.B")); mm.insert("parameters".to_string(), json!({"a": x})); run_call_t(mm, flags, order) }
        8 => run_call_t(json!({"method": "a.B", "parameters": {"a": x}, "zz": x}), flags, order),
        9 => run_call_t(UntaggedM::B(EnvelopeM { method: "a.B".into(), parameters: P { a: x }, trace_id: x }), flags, order),
        _ => {
            // a strict method type must SEE (and so refuse) a member that is neither its own nor a flag
            if let Some(w) = run_call_t(StrictM { method: "a.C".into() }, flags, order) { return Some(w); }
            let doc = format!(r#"{{"method":"a.C","bogus":[{x}],"oneway":true}}"#);
            match serde_json::from_str::<Call<StrictM>>(&doc) {
                Ok(d) => Some(format!("decoding {doc} into a deny_unknown_fields method type succeeded ({:?}): the unknown member was hidden from the method type", d.method())),
                Err(_) => None,
            }
        }
    }
}
fn search_call(seed: u64, budget: usize) -> Option<Value> {
    let mut rng = Rng(seed.wrapping_mul(0x9E3779B97F4A7C15) | 1);
    let f = |r: usize| match r { 0 => None, 1 => Some(false), _ => Some(true) };
    for _ in 0..budget {
        let (m, x) = (rng.below(10) as u8, rng.below(1000) as u32);
        let flags = [f(rng.below(3)), f(rng.below(3)), f(rng.below(3))];
        let order = rng.next();
        if let Some(why) = run_call(m, x, flags, order) {
            return Some(json!({"kind":"call","m":m,"x":x,"flags":flags,"order":order,"why":why}));
        }
    }
    None
}

// ---------------------------------------------------------------------------------------------
// C05 (error envelope, DERIVE OUTPUT - outside the functions under contract: a witness finder for that part, nothing more):
// an enum using the ReplyError derive encodes as {"error": "<interface>.<Variant>"} plus a `parameters` object holding the
// variant's fields under their wire names exactly when it has fields; it decodes from either member order and round-trips.
// (Not asserted: how a field-less variant's absent / null / {} parameters decode - the property text announces that defect.)
#[derive(Debug, PartialEq, Clone, zlink_core::ReplyError)]
#[zlink(interface = "a.b", crate = "zlink_core")]
enum DErr {
    Plain,
    One { code: u32 },
    Opt { a: Option<u32>, b: Option<String>, c: u32 },
    Ren { #[zlink(rename = "theName")] s: String },
    Many { p: u32, q: Option<bool>, r: String, t: Option<u32> },
    AllOpt { a: Option<u32>, b: Option<String> },
}
/// the bytes zlink's own serializer puts on the wire for an error reply (through the public send_error), without the terminator
fn zlink_to_slice<T: Serialize + std::fmt::Debug>(value: &T, out: &mut [u8]) -> Option<usize> {
    let sock = ScriptedSocket::new(&[], &[]);
    let script = sock.0.clone();
    let mut conn = zlink_core::Connection::new(sock);
    block_on(conn.send_error(value), 10).ok()?;
    let log = script.borrow().log.clone();
    let frame = log.first()?;
    let n = frame.len().checked_sub(1)?;
    out[..n].copy_from_slice(&frame[..n]);
    Some(n)
}
fn derr_of(v: u8, x: u32, mask: u8) -> DErr {
    let o = |bit: u8, y: u32| if mask & bit != 0 { Some(y) } else { None };
    match v % 6 {
        5 => DErr::AllOpt { a: o(1, x), b: if mask & 2 != 0 { Some(format!("o{x}")) } else { None } },
        0 => DErr::Plain,
        1 => DErr::One { code: x },
        2 => DErr::Opt { a: o(1, x), b: if mask & 2 != 0 { Some(format!("s{x}")) } else { None }, c: x ^ 5 },
        3 => DErr::Ren { s: format!("r{x}") },
        _ => DErr::Many { p: x, q: if mask & 1 != 0 { Some(x % 2 == 0) } else { None }, r: format!("m{x}"), t: o(2, x + 1) },
    }
}
fn run_err(v: u8, x: u32, mask: u8) -> Option<String> {
    let e = derr_of(v, x, mask);
    let (variant, fields): (&str, Vec<&str>) = match &e {
        DErr::Plain => ("Plain", vec![]), DErr::One { .. } => ("One", vec!["code"]), DErr::Opt { .. } => ("Opt", vec!["a", "b", "c"]),
        DErr::Ren { .. } => ("Ren", vec!["theName"]), DErr::Many { .. } => ("Many", vec!["p", "q", "r", "t"]), DErr::AllOpt { .. } => ("AllOpt", vec!["a", "b"]),
    };
    // through the text (what goes on the wire), not through serde_json's Value serializer: a wrong size hint shows only there
    let wire_text = match serde_json::to_string(&e) { Ok(t) => t, Err(x) => return Some(format!("{e:?}: encoding failed: {x}")) };
    let j: Value = match serde_json::from_str(&wire_text) { Ok(j) => j, Err(x) => return Some(format!("{e:?} encodes as {wire_text}, which is not a JSON document: {x}")) };
    let mut zbuf = vec![0u8; 4096];
    match zlink_to_slice(&e, &mut zbuf) { Some(n) if &zbuf[..n] == wire_text.as_bytes() => {}, other => return Some(format!("{e:?}: zlink's own serializer writes {:?}, serde_json {wire_text}", other.map(|n| String::from_utf8_lossy(&zbuf[..n]).to_string()))) }
    let obj = match j.as_object() { Some(o) => o, None => return Some(format!("{e:?} encodes as {j}, not an object")) };
    if obj.get("error").and_then(|n| n.as_str()) != Some(&format!("a.b.{variant}")) { return Some(format!("{e:?} encodes as {j}: `error` is not \"a.b.{variant}\"")); }
    if obj.keys().any(|k| k != "error" && k != "parameters") { return Some(format!("{e:?} encodes as {j}: members besides `error` and `parameters`")); }
    match (fields.is_empty(), obj.get("parameters")) {
        (true, None) => {}
        (true, Some(p)) => return Some(format!("{e:?} has no fields but encodes `parameters`: {p}")),
        (false, None) => return Some(format!("{e:?} has fields but encodes no `parameters`: {j}")),
        (false, Some(p)) => {
            let po = match p.as_object() { Some(o) => o, None => return Some(format!("{e:?}: `parameters` is not an object: {p}")) };
            if po.keys().any(|k| !fields.contains(&k.as_str())) { return Some(format!("{e:?}: `parameters` holds a member that is no field of the variant: {p}")); }
            // a field that is not an Option (or is Some) must be there under its wire name; a None may be null or left out
            let must: Vec<&str> = match &e {
                DErr::One { .. } => vec!["code"], DErr::Ren { .. } => vec!["theName"],
                DErr::Opt { a, b, .. } => [a.map(|_| "a"), b.as_ref().map(|_| "b"), Some("c")].into_iter().flatten().collect(),
                DErr::Many { q, t, .. } => [Some("p"), q.map(|_| "q"), Some("r"), t.map(|_| "t")].into_iter().flatten().collect(),
                DErr::AllOpt { a, b } => [a.map(|_| "a"), b.as_ref().map(|_| "b")].into_iter().flatten().collect(),
                DErr::Plain => vec![],
            };
            for f in must { if po.get(f).map_or(true, |v| v.is_null()) { return Some(format!("{e:?}: field `{f}` is missing from `parameters`: {j}")); } }
        }
    }
    // round trip, in both member orders
    let text = j.to_string();
    match serde_json::from_str::<DErr>(&text) { Ok(b) if b == e => {}, other => return Some(format!("{e:?} -> {text} -> {other:?}: does not round-trip")) }
    if let Some(p) = obj.get("parameters") {
        let swapped = format!(r#"{{"parameters":{p},"error":"a.b.{variant}"}}"#);
        match serde_json::from_str::<DErr>(&swapped) { Ok(b) if b == e => {}, other => return Some(format!("{e:?}: decoding {swapped} (parameters first) gives {other:?}")) }
    }
    None
}
fn search_err(seed: u64, budget: usize) -> Option<Value> {
    let mut rng = Rng(seed.wrapping_mul(0x9E3779B97F4A7C15) | 1);
    for _ in 0..budget {
        let (v, x, mask) = (rng.below(6) as u8, rng.below(100000) as u32, rng.below(4) as u8);
        if let Some(why) = run_err(v, x, mask) { return Some(json!({"kind":"err","v":v,"x":x,"mask":mask,"why":why})); }
    }
    None
}

// ---------------------------------------------------------------------------------------------
// C18: fairness.  Every connection has all its calls available from the start (one pipelined burst each);
// call `a` = 100 * connection + sequence number.  Expected: no connection is served twice in a row while another
// connection still has an unserved call (they have all been waiting the whole time).
/// `pads[c]`: every call of connection c is followed by that many blanks inside its frame (legal JSON whitespace): a waiting call
/// of several hundred bytes - more than one step of the 256-byte read buffer - is as complete and as waiting as a short one
fn run_fair(counts: &[usize], cuts: &[usize], pads: &[usize]) -> Option<String> {
    SERVED.with(|s| s.borrow_mut().clear());
    let wires: Vec<Vec<u8>> = counts.iter().enumerate().map(|(c, n)| {
        let mut w = Vec::new();
        for k in 0..*n { w.extend_from_slice(format!(r#"{{"method":"a.B","parameters":{{"a":{}}}}}"#, 100 * c + k).as_bytes()); w.extend(std::iter::repeat(b' ').take(pads.get(c).copied().unwrap_or(0))); w.push(0); }
        w
    }).collect();
    let _ = run_server_opt(&wires, cuts, true); // connections stay open: the set of connections is unchanged
    let order: Vec<u32> = SERVED.with(|s| s.borrow().clone());
    let mut left: Vec<usize> = counts.to_vec();
    for (i, a) in order.iter().enumerate() {
        let c = (*a / 100) as usize;
        if i > 0 && (order[i - 1] / 100) as usize == c {
            if left.iter().enumerate().any(|(o, n)| o != c && *n > 0) {
                return Some(format!("connection {c} served twice in a row at position {i} while others were waiting; order of service (100*conn+seq) = {order:?}"));
            }
        }
        if left[c] > 0 { left[c] -= 1; }
    }
    if order.len() != counts.iter().sum::<usize>() { return Some(format!("served {} of {} calls: {order:?}", order.len(), counts.iter().sum::<usize>())); }
    None
}
/// C18 across transitions: connection c sends `counts[c]` calls in one burst; `kind[c]`: 0 = stays open, 1 = closes after its
/// burst (EOF: the list is reordered by swap_remove), 2 = its first call is a streaming call of 2 items (parked, then pushed
/// back at the end of the list).  The property bounds starvation by connections x (transitions + 1): the j-th call of ANY
/// connection (all calls are available from the start) must be among the first (j + 1) * n * (T + 1) calls served,
/// T = number of connections of kind 1 or 2.  A loose necessary condition; the flooders' bursts are longer than the bound.
fn run_fair_transitions(counts: &[usize], kind: &[u8], cuts: &[usize], strict: bool) -> Option<String> {
    SERVED.with(|s| s.borrow_mut().clear());
    let wires: Vec<Vec<u8>> = counts.iter().enumerate().map(|(c, n)| {
        let mut w = Vec::new();
        if kind[c] == 2 { w.extend_from_slice(br#"{"method":"a.T","parameters":{"n":2},"more":true}"#); w.push(0); }
        for k in 0..*n { w.extend_from_slice(format!(r#"{{"method":"a.B","parameters":{{"a":{}}}}}"#, 100 * c + k).as_bytes()); w.push(0); }
        w
    }).collect();
    let socks: Vec<ScriptedSocket> = wires.iter().enumerate().map(|(c, w)| { let s = ScriptedSocket::new(w, cuts); s.0.borrow_mut().hold_open = kind[c] != 1; s }).collect();
    let scripts: Vec<_> = socks.iter().map(|s| s.0.clone()).collect();
    let mut conns = socks;
    conns.reverse();
    let server = zlink_core::Server::new(ScriptedListener { conns }, Svc);
    let mut fut = Box::pin(server.run());
    for _ in 0..20_000 {
        if let Poll::Ready(_) = poll_once(fut.as_mut()) { break; }
        if scripts.iter().all(|s| { let s = s.borrow(); s.consumed == s.wire.len() }) {
            let before: usize = scripts.iter().map(|s| s.borrow().log.len()).sum();
            for _ in 0..8 { let _ = poll_once(fut.as_mut()); }
            let after: usize = scripts.iter().map(|s| s.borrow().log.len()).sum();
            if before == after { break; }
        }
    }
    let order: Vec<u32> = SERVED.with(|s| s.borrow().clone());
    let n = counts.len();
    let t = kind.iter().filter(|k| **k != 0).count();
    let total: usize = counts.iter().sum();
    if order.len() != total { return Some(format!("served {} of {} calls: {order:?}", order.len(), total)); }
    for (pos, a) in order.iter().enumerate() {
        let (c, j) = ((*a / 100) as usize, (*a % 100) as usize);
        let bound = (j + 1) * n * (t + 1);
        // KNOWN FINDING (known_findings.txt, C18 stream-starved-by-calls): the calls a client pipelined behind its own streaming
        // call wait until the stream ends, and select_biased! polls the call arm before the stream arm, so while other
        // connections have calls buffered no stream item is delivered.  Not re-reported by the search (strict = false);
        // `replay` of the finding's witness uses strict = true.
        if !strict && kind[c] == 2 { continue; }
        if pos >= bound && pos + 1 < total {
            // only a violation if somebody else was served in its place although it was waiting: always the case here
            return Some(format!("call {j} of connection {c} was served at position {pos}, beyond the bound (j+1)*n*(T+1) = {bound} (n = {n}, T = {t}); order (100*conn+seq) = {order:?}"));
        }
    }
    None
}
fn search_fair(seed: u64, budget: usize) -> Option<Value> {
    let mut rng = Rng(seed.wrapping_mul(0x9E3779B97F4A7C15) | 1);
    for it in 0..budget {
        let n = 2 + rng.below(4);
        let counts: Vec<usize> = (0..n).map(|_| 1 + rng.below(5)).collect();
        let cuts: Vec<usize> = match rng.below(3) { 0 => vec![], 1 => vec![4096], _ => vec![30 + rng.below(200)] };
        // now and then the calls of one or two connections are large (several steps of the read buffer)
        let pads: Vec<usize> = (0..n).map(|_| if rng.below(4) == 0 { 250 + rng.below(900) } else { 0 }).collect();
        if let Some(why) = run_fair(&counts, &cuts, &pads) {
            return Some(json!({"kind":"fair","counts":counts,"cuts":cuts,"pads":pads,"why":why}));
        }
        if it % 4 == 0 {
            // transitions: one or two connections close / stream early, two flood with bursts longer than the bound, the rest have few calls
            let n = 3 + rng.below(3);
            let mut kind = vec![0u8; n];
            kind[rng.below(n)] = 1 + rng.below(2) as u8;
            if rng.below(2) == 0 { kind[rng.below(n)] = 1 + rng.below(2) as u8; }
            let t = kind.iter().filter(|k| **k != 0).count();
            let long = n * (t + 1) + 4;
            let counts: Vec<usize> = (0..n).map(|c| if kind[c] != 0 { 1 + rng.below(2) } else if rng.below(3) == 0 { 1 } else { (long + rng.below(6)).min(90) }).collect();
            if let Some(why) = run_fair_transitions(&counts, &kind, &[4096], false) {
                return Some(json!({"kind":"fair_transitions","counts":counts,"conn_kind":kind,"cuts":[4096],"why":why}));
            }
        }
    }
    None
}

// ---------------------------------------------------------------------------------------------
// C08 / C09 / C10: a real Server with faulty and streaming clients.  Per connection the expectation is
// independent of every other connection (non-interference): replies for its calls in order until its first
// undecodable frame or its first failing write; a streaming call yields its items, then the connection resumes.
fn run_faults(wires: &[Vec<u8>], fail_write_at: &[Option<usize>], cuts: &[usize], slow: &[usize]) -> (Vec<Vec<String>>, Vec<Vec<String>>) {
    let socks: Vec<ScriptedSocket> = wires.iter().zip(fail_write_at).enumerate().map(|(i, (w, f))| {
        // cuts == [0]: every read delivers exactly one frame (a call that arrives in a segment of its own, e.g. while the
        // connection is parked behind a stream)
        let per_frame: Vec<usize> = frames_of(w).iter().map(|f| f.len() + 1).collect();
        let s = ScriptedSocket::new(w, if cuts == [0] { &per_frame } else { cuts });
        if let Some(k) = f { s.0.borrow_mut().fail_writes = vec![*k]; }
        // a momentarily full transport: every k-th write pends once, then completes (it keeps accepting writes)
        s.0.borrow_mut().slow_write_every = slow.get(i).copied().unwrap_or(0);
        s
    }).collect();
    let scripts: Vec<_> = socks.iter().map(|s| s.0.clone()).collect();
    let mut conns = socks;
    conns.reverse();
    let server = zlink_core::Server::new(ScriptedListener { conns }, Svc);
    let mut fut = Box::pin(server.run());
    let mut idle = 0;
    let mut panicked = false;
    for _ in 0..20_000 {
        let before: usize = scripts.iter().map(|s| { let s = s.borrow(); s.log.len() + s.consumed + s.writes }).sum();
        // a panic inside Server::run takes the whole server down: the strongest failure of isolation
        match std::panic::catch_unwind(std::panic::AssertUnwindSafe(|| poll_once(fut.as_mut()))) {
            Ok(Poll::Ready(_)) => break,
            Ok(Poll::Pending) => {}
            Err(_) => { panicked = true; break; }
        }
        let after: usize = scripts.iter().map(|s| { let s = s.borrow(); s.log.len() + s.consumed + s.writes }).sum();
        if before == after { idle += 1; if idle > 12 { break; } } else { idle = 0; }
    }
    if panicked { std::mem::forget(fut); }
    let expected: Vec<Vec<String>> = wires.iter().zip(fail_write_at).map(|(w, f)| {
        let mut e = oracle_server(w);
        if let Some(k) = f { e.truncate(*k); }
        e
    }).collect();
    let mut got: Vec<Vec<String>> = scripts.iter().map(|s| {
        let flat: Vec<u8> = s.borrow().log.iter().flatten().copied().collect();
        frames_of(&flat).iter().map(|f| String::from_utf8_lossy(f).to_string()).collect()
    }).collect();
    if panicked { for g in got.iter_mut() { g.push("<Server::run PANICKED: every connection is lost>".to_string()); } }
    (expected, got)
}
/// a healthy connection (only decodable calls, ends on a frame boundary, no failing write) must get exactly its
/// replies whatever the others do; a faulty one may lose replies from its fault on: any prefix is fine
fn faults_ok(wires: &[Vec<u8>], fails: &[Option<usize>], exp: &[Vec<String>], got: &[Vec<String>]) -> bool {
    for i in 0..wires.len() {
        let w = &wires[i];
        let healthy = fails[i].is_none() && (w.is_empty() || *w.last().unwrap() == 0)
            && frames_of(w).iter().all(|f| serde_json::from_slice::<Call<M>>(f).is_ok());
        if healthy { if exp[i] != got[i] { return false; } }
        else if got[i].len() > exp[i].len() || got[i][..] != exp[i][..got[i].len()] { return false; }
    }
    true
}
fn search_faults(seed: u64, budget: usize) -> Option<Value> {
    let mut rng = Rng(seed.wrapping_mul(0x9E3779B97F4A7C15) | 1);
    let calls = [
        r#"{"method":"a.B","parameters":{"a":1}}"#, r#"{"method":"a.C"}"#, r#"{"method":"a.C","oneway":true}"#,
        r#"{"method":"a.B","parameters":{"a":5},"oneway":true}"#, r#"{"method":"a.S","parameters":{"s":"x"}}"#,
        r#"{"method":"a.T","parameters":{"n":2},"more":true}"#, r#"{"method":"a.T","parameters":{"n":0},"more":true}"#,
        r#"{"method":"a.T","parameters":{"n":3},"more":true}"#, r#"{"method":"a.T","parameters":{"n":2},"oneway":true}"#,
        r#"{"method":"a.U","parameters":{"n":2},"more":true}"#, r#"{"method":"a.U","parameters":{"n":1},"more":true}"#,
        r#"{"method":"a.Nope"}"#, r#"{"method":"a.B","parameters":{"a":"wrong"}}"#, "garbage", r#"{"method":"a.B","parameters":{"a":2}} "#,
    ];
    for _ in 0..budget {
        let nconn = 1 + rng.below(3);
        let mut wires = Vec::new();
        let mut fails = Vec::new();
        for _ in 0..nconn {
            let mut w = Vec::new();
            for _ in 0..rng.below(6) {
                // faults are rarer than good calls
                let k = if rng.below(5) == 0 { 11 + rng.below(5) } else { rng.below(11) };
                // (15: a complete frame of bytes that are not UTF-8 - garbage need not be text)
                if k == 15 { w.extend_from_slice(&[0xffu8, 0xfe, 0xfd, 0x7b, 0x80]); } else { w.extend_from_slice(calls[k].as_bytes()); }
                w.push(0);
            }
            if rng.below(6) == 0 { let cut = rng.below(w.len() + 1); w.truncate(cut); } // EOF mid-burst / mid-frame
            wires.push(w);
            fails.push(if rng.below(4) == 0 { Some(rng.below(4)) } else { None });
        }
        let cuts: Vec<usize> = match rng.below(4) { 0 => vec![], 1 => vec![1 + rng.below(7)], 2 => vec![0], _ => (0..3).map(|_| 1 + rng.below(60)).collect() };
        let slow: Vec<usize> = (0..nconn).map(|_| if rng.below(3) == 0 { 1 + rng.below(3) } else { 0 }).collect();
        let (exp, got) = run_faults(&wires, &fails, &cuts, &slow);
        if !faults_ok(&wires, &fails, &exp, &got) {
            return Some(json!({"kind":"faults","slow_write_every":slow,"wires_hex":wires.iter().map(|w| hex(w)).collect::<Vec<_>>(),
                "wires_shown":wires.iter().map(|w| show(w)).collect::<Vec<_>>(),"fail_write_at":fails,"cuts":cuts,"expected":exp,"got":got}));
        }
    }
    None
}

struct Rng(u64);
impl Rng {
    fn next(&mut self) -> u64 {
        self.0 ^= self.0 << 13;
        self.0 ^= self.0 >> 7;
        self.0 ^= self.0 << 17;
        self.0
    }
    fn below(&mut self, n: usize) -> usize {
        (self.next() % n as u64) as usize
    }
}

fn gen_frame(rng: &mut Rng) -> Vec<u8> {
    let pad = |rng: &mut Rng| [" ", "", "", "\n", "  \t"][rng.below(5)].to_string();
    let body = match rng.below(9) {
        0 => r#"{"method":"a.B","parameters":{"a":1}}"#.to_string(),
        1 => r#"{"method":"a.C"}"#.to_string(),
        2 => r#"{"method":"a.C","oneway":true}"#.to_string(),
        3 => r#"{"method":"a.B","parameters":{"a":"x"}}"#.to_string(), // wrong shape
        4 => r#"{"method":"a.B","parameters":{"a":2}}}"#.to_string(),  // trailing garbage
        5 => r#"{"method":"a.B","parameters":{"a":"#.to_string(),        // truncated
        6 => format!(r#"{{"method":"a.S","parameters":{{"s":"{}"}}}}"#, "x".repeat(rng.below(600))),
        7 => if rng.below(2) == 0 { "x".to_string() } else { " \n".to_string() },   // garbage; or nothing but whitespace (an "EOF while parsing" kind of error)
        _ => r#"{"method":"a.B","parameters":{"a":7}} {"method":"a.C"}"#.to_string(), // two docs in one frame
    };
    let mut f = pad(rng).into_bytes();
    f.extend_from_slice(body.as_bytes());
    // frames are bytes, not text: now and then one carries bytes that are not UTF-8 (e.g. a Latin-1 string) - undecodable,
    // and consumed like any other frame
    if rng.below(12) == 0 && f.len() > 4 { let k = 1 + rng.below(f.len() - 2); f[k] = [0xffu8, 0xe9, 0xc0, 0x80][rng.below(4)]; }
    f.extend_from_slice(pad(rng).as_bytes());
    // ... and now and then a stray byte directly in front of the terminator or at the very start of the frame: 0x01 / 0x80 / 0xff
    // and their neighbours are the bytes on which word-at-a-time scans for the terminator (has-zero-byte bit tricks) go wrong
    if rng.below(8) == 0 { f.push([0x01u8, 0x02, 0x7f, 0x80, 0x81, 0xfe, 0xff, 0x1f][rng.below(8)]); }
    if rng.below(24) == 0 { f.insert(0, [0x01u8, 0x80, 0xff, 0x7f][rng.below(4)]); }
    if f.is_empty() {
        f.push(b' ');
    }
    f
}

fn search_recv(seed: u64, budget: usize, cancel: bool) -> Option<Value> {
    std::panic::set_hook(Box::new(|_| {}));
    let mut rng = Rng(seed.wrapping_mul(0x9E3779B97F4A7C15) | 1);
    for _ in 0..budget {
        let nframes = 1 + rng.below(4);
        let mut wire = Vec::new();
        for _ in 0..nframes {
            wire.extend(gen_frame(&mut rng));
            wire.push(0);
        }
        // boundary case: now and then the whole batch ends exactly where the 256-byte-stepped read buffer ends (the last
        // frame is padded so that the wire is a multiple of 256 bytes long), delivered whole or in pieces
        if rng.below(4) == 0 {
            let overhead = br#"{"method":"a.S","parameters":{"s":""}}"#.len() + 1;
            let mut target = ((wire.len() + overhead) / 256 + 1) * 256;
            if rng.below(3) == 0 { target += 256; }
            let pad = target - wire.len() - overhead;
            wire.extend_from_slice(format!(r#"{{"method":"a.S","parameters":{{"s":"{}"}}}}"#, "x".repeat(pad)).as_bytes());
            wire.push(0);
        }
        let cuts: Vec<usize> = match rng.below(4) {
            0 => vec![],
            1 => vec![1],
            2 => (0..1 + rng.below(5)).map(|_| 1 + rng.below(40)).collect(),
            _ => vec![1 + rng.below(wire.len())],
        };
        let mut pending: Vec<usize> = if cancel { (0..rng.below(6)).map(|_| rng.below(12)).collect() } else { vec![] };
        let mut cuts = cuts;
        // now and then (cancel runs): a frame of 100-120 KB, the receive abandoned after several hundred reads -
        // tens of KB of a partial frame are buffered (msg_pos == 0, a buffer grown far beyond its first step) when the receive restarts
        if cancel && rng.below(64) == 0 {
            let big = format!(r#"{{"method":"a.S","parameters":{{"s":"{}"}}}}"#, "x".repeat(100_000 + rng.below(20_000)));
            let mut w2 = big.into_bytes(); w2.push(0); w2.extend_from_slice(&wire); wire = w2;
            // (the reader offers the transport the free space of its buffer, which grows in 256-byte steps: every read delivers
            // at most 256 bytes, so the abandonment falls on read number 260-380: 66-97 KB into the frame)
            cuts = vec![4096];
            pending = vec![260 + rng.below(120)];
        }
        let failed_sends = if rng.below(6) == 0 { 1 + rng.below(2) } else { 0 };
        let (w2, c2, p2) = (wire.clone(), cuts.clone(), pending.clone());
        let (exp, got) = match std::panic::catch_unwind(move || run_recv(&w2, &c2, &p2, failed_sends)) {
            Ok(x) => x,
            Err(_) => (vec!["(no panic)".to_string()], vec!["PANIC inside receive_call".to_string()]),
        };
        if exp != got {
            return Some(json!({"kind":"recv","wire_hex":hex(&wire),"wire_shown":show(&wire),"cuts":cuts,"pending_reads":pending,"failed_sends":failed_sends,
                               "expected":exp,"got":got}));
        }
    }
    None
}

fn main() {
    let args: Vec<String> = std::env::args().collect();
    if args.len() >= 2 && args[1] == "search" {
        let kind = args[2].as_str();
        let seed: u64 = args[3].parse().unwrap();
        let budget: usize = args[4].parse().unwrap();
        let found = match kind {
            "recv" => search_recv(seed, budget, false),
            "recv_cancel" => search_recv(seed, budget, true),
            "server" => search_server(seed, budget / 10),
            "chain" => search_chain(seed, budget / 10),
            "idl" => search_idl(seed, budget),
            "idl_rt" => search_idl_rt(seed, budget / 10),
            "send" => search_send(seed, budget / 4),
            "fair" => search_fair(seed, budget / 40),
            "faults" => search_faults(seed, budget / 10),
            "call" => search_call(seed, budget / 4),
            "err" => search_err(seed, budget / 4),
            _ => panic!("unknown kind"),
        };
        match found {
            Some(v) => {
                let s = serde_json::to_string_pretty(&v).unwrap();
                if let Some(out) = args.get(5) {
                    std::fs::write(out, &s).unwrap();
                }
                println!("FOUND {s}");
                std::process::exit(1);
            }
            None => {
                println!("no failing input found in {budget} cases");
                std::process::exit(0);
            }
        }
    }
    let v: Value = serde_json::from_str(&std::fs::read_to_string(&args[1]).unwrap()).unwrap();
    let w = if v.get("witness").is_some() { &v["witness"] } else { &v };
    match w["kind"].as_str() {
        Some("recv") => {
            let wire = unhex(w["wire_hex"].as_str().unwrap());
            let cuts: Vec<usize> = w["cuts"].as_array().unwrap().iter().map(|x| x.as_u64().unwrap() as usize).collect();
            let pend: Vec<usize> = w["pending_reads"].as_array().map(|a| a.iter().map(|x| x.as_u64().unwrap() as usize).collect()).unwrap_or_default();
            let failed_sends = w["failed_sends"].as_u64().unwrap_or(0) as usize;
            let (w2, c2, p2) = (wire.clone(), cuts.clone(), pend.clone());
            let (exp, got) = match std::panic::catch_unwind(move || run_recv(&w2, &c2, &p2, failed_sends)) {
                Ok(x) => x,
                Err(_) => (vec!["(no panic)".to_string()], vec!["PANIC inside receive_call".to_string()]),
            };
            println!("wire     = {}", show(&wire));
            println!("expected = {exp:?}");
            println!("got      = {got:?}");
            if exp != got {
                println!("REPLAY: FAILS on the real code");
                std::process::exit(1);
            }
            println!("REPLAY: passes on the real code");
        }
        Some("err") => {
            match run_err(w["v"].as_u64().unwrap() as u8, w["x"].as_u64().unwrap() as u32, w["mask"].as_u64().unwrap() as u8) {
                Some(why) => { println!("{why}\nREPLAY: FAILS on the real code"); std::process::exit(1); }
                None => println!("REPLAY: passes on the real code"),
            }
        }
        Some("call") => {
            let flags: Vec<Option<bool>> = w["flags"].as_array().unwrap().iter().map(|x| x.as_bool()).collect();
            match run_call(w["m"].as_u64().unwrap() as u8, w["x"].as_u64().unwrap() as u32, [flags[0], flags[1], flags[2]], w["order"].as_u64().unwrap()) {
                Some(why) => { println!("{why}\nREPLAY: FAILS on the real code"); std::process::exit(1); }
                None => println!("REPLAY: passes on the real code"),
            }
        }
        Some("faults") => {
            let wires: Vec<Vec<u8>> = w["wires_hex"].as_array().unwrap().iter().map(|x| unhex(x.as_str().unwrap())).collect();
            let cuts: Vec<usize> = w["cuts"].as_array().unwrap().iter().map(|x| x.as_u64().unwrap() as usize).collect();
            let fails: Vec<Option<usize>> = w["fail_write_at"].as_array().unwrap().iter().map(|x| x.as_u64().map(|v| v as usize)).collect();
            let slow: Vec<usize> = w.get("slow_write_every").and_then(|x| x.as_array()).map(|a| a.iter().map(|x| x.as_u64().unwrap_or(0) as usize).collect()).unwrap_or_default();
            let (exp, got) = run_faults(&wires, &fails, &cuts, &slow);
            for (w, f) in wires.iter().zip(&fails) { println!("wire = {}   failing write = {f:?}", show(w)); }
            println!("expected = {exp:?}");
            println!("got      = {got:?}");
            if !faults_ok(&wires, &fails, &exp, &got) { println!("REPLAY: FAILS on the real code"); std::process::exit(1); }
            println!("REPLAY: passes on the real code (healthy connections exact, faulty ones a prefix)");
        }
        Some("fair") => {
            let counts: Vec<usize> = w["counts"].as_array().unwrap().iter().map(|x| x.as_u64().unwrap() as usize).collect();
            let cuts: Vec<usize> = w["cuts"].as_array().unwrap().iter().map(|x| x.as_u64().unwrap() as usize).collect();
            let pads: Vec<usize> = w["pads"].as_array().map(|a| a.iter().map(|x| x.as_u64().unwrap() as usize).collect()).unwrap_or_default();
            println!("calls per connection (all available from the start) = {counts:?}, read chunking = {cuts:?}, blanks behind each call = {pads:?}");
            match run_fair(&counts, &cuts, &pads) {
                Some(why) => { println!("{why}\nREPLAY: FAILS on the real code"); std::process::exit(1); }
                None => println!("REPLAY: passes on the real code"),
            }
        }
        Some("fair_transitions") | Some("stream_starved") => {
            let counts: Vec<usize> = w["counts"].as_array().unwrap().iter().map(|x| x.as_u64().unwrap() as usize).collect();
            let kind: Vec<u8> = w["conn_kind"].as_array().unwrap().iter().map(|x| x.as_u64().unwrap() as u8).collect();
            let cuts: Vec<usize> = w["cuts"].as_array().unwrap().iter().map(|x| x.as_u64().unwrap() as usize).collect();
            println!("calls per connection (all available from the start) = {counts:?}, connection kinds (0 stays, 1 closes after its burst, 2 starts with a 2-item stream) = {kind:?}");
            let strict = w["kind"].as_str() == Some("stream_starved");
            match run_fair_transitions(&counts, &kind, &cuts, strict) {
                Some(why) => { println!("{why}\nREPLAY: FAILS on the real code"); std::process::exit(1); }
                None => println!("REPLAY: passes on the real code"),
            }
        }
        Some("send") => {
            let ops: Vec<(u8, usize)> = w["ops"].as_array().unwrap().iter().map(|x| (x[0].as_u64().unwrap() as u8, x[1].as_u64().unwrap() as usize)).collect();
            std::panic::set_hook(Box::new(|_| {}));
            let ops2 = ops.clone();
            let (exp, got) = match std::panic::catch_unwind(move || run_send(&ops2)) {
                Ok(x) => x,
                Err(_) => (vec!["(no panic)".to_string()], vec!["PANIC inside enqueue/send/flush".to_string()]),
            };
            println!("ops (0 enqueue_call,1 send_call,2 send_reply,3 send_error,4 flush,5 refused send; payload size) = {ops:?}");
            if exp != got {
                println!("expected writes = {exp:?}\ngot writes      = {got:?}\nREPLAY: FAILS on the real code");
                std::process::exit(1);
            }
            println!("REPLAY: passes on the real code");
        }
        Some("idl_rt") => {
            std::panic::set_hook(Box::new(|_| {}));
            let cs = w["case_seed"].as_u64().unwrap();
            let cv = w["commented_variants"].as_bool().unwrap_or(false);
            match run_idl_rt(cs, cv) {
                Some((text, why)) => { println!("rendered description:\n{text}\n{why}\nREPLAY: FAILS on the real code"); std::process::exit(1); }
                None => println!("REPLAY: passes on the real code"),
            }
        }
        Some("idl_blank") => {
            std::panic::set_hook(Box::new(|_| {}));
            let (a, b) = (w["text"].as_str().unwrap().to_string(), w["text_with_blank_lines"].as_str().unwrap().to_string());
            let r = std::panic::catch_unwind(move || (zlink_core::idl::Interface::try_from(leak(a)).map(|i| rt_dump(&i)).map_err(|e| e.to_string()),
                                                       zlink_core::idl::Interface::try_from(leak(b)).map(|i| rt_dump(&i)).map_err(|e| e.to_string())));
            match r {
                Ok((Ok(d0), Ok(d1))) if d0 == d1 => println!("REPLAY: passes on the real code"),
                Ok((d0, d1)) => { println!("without blank lines: {d0:?}\nwith blank lines:    {d1:?}\nREPLAY: FAILS on the real code"); std::process::exit(1); }
                Err(_) => { println!("parser panicked\nREPLAY: FAILS on the real code"); std::process::exit(1); }
            }
        }
        Some("idl_tree") => {
            let t = w["text"].as_str().unwrap();
            let e = w["expect"].as_str().unwrap();
            println!("legal text (generated from a tree, random legal layout) = {t:?}\nexpected description = {e}");
            match run_idl_tree(t, e) {
                Some(why) => { println!("{why}\nREPLAY: FAILS on the real code"); std::process::exit(1); }
                None => println!("REPLAY: passes on the real code"),
            }
        }
        Some("idl_reject") => {
            let t = w["text"].as_str().unwrap().to_string();
            println!("text = {t:?}  (outside the grammar: must be rejected)");
            let t2 = t.clone();
            match std::panic::catch_unwind(move || zlink_core::idl::Interface::try_from(t2.as_str()).map(|i| (i.methods().count(), i.custom_types().count(), i.errors().count())).map_err(|e| e.to_string())) {
                Ok(Err(e)) => println!("rejected: {e}\nREPLAY: passes on the real code"),
                Ok(Ok(c)) => { println!("ACCEPTED with (methods, types, errors) = {c:?}\nREPLAY: FAILS on the real code"); std::process::exit(1); }
                Err(_) => { println!("parser panicked\nREPLAY: FAILS on the real code"); std::process::exit(1); }
            }
        }
        Some("idl_members") => {
            let t = w["text"].as_str().unwrap();
            let e: Vec<usize> = w["expect"].as_array().unwrap().iter().map(|x| x.as_u64().unwrap() as usize).collect();
            println!("text = {t:?}");
            match zlink_core::idl::Interface::try_from(t).map(|i| (i.methods().count(), i.custom_types().count(), i.errors().count())) {
                Ok(c) if c == (e[0], e[1], e[2]) => println!("REPLAY: passes on the real code"),
                other => { println!("expected (methods, types, errors) = {e:?}, got {other:?}\nREPLAY: FAILS on the real code"); std::process::exit(1); }
            }
        }
        Some("idl_legal") => {
            let t = w["text"].as_str().unwrap();
            let n = w["name"].as_str().unwrap();
            println!("text = {t:?}");
            match zlink_core::idl::Interface::try_from(t).map(|i| i.name().to_string()) {
                Ok(name) if name == n => println!("REPLAY: passes on the real code"),
                other => { println!("legal interface text rejected or mis-named: {other:?}\nREPLAY: FAILS on the real code"); std::process::exit(1); }
            }
        }
        Some("idl") => {
            std::panic::set_hook(Box::new(|_| {}));
            let t = w["text"].as_str().unwrap();
            println!("text = {t:?}");
            match run_idl(t) {
                Some(why) => { println!("{why}\nREPLAY: FAILS on the real code"); std::process::exit(1); }
                None => println!("REPLAY: passes on the real code"),
            }
        }
        Some("chain") => {
            let flags: Vec<u8> = w["flags"].as_array().unwrap().iter().map(|x| x.as_u64().unwrap() as u8).collect();
            let script: Vec<(usize, u8)> = w["script"].as_array().unwrap().iter().map(|x| (x[0].as_u64().unwrap() as usize, x[1].as_u64().unwrap() as u8)).collect();
            let cuts: Vec<usize> = w["cuts"].as_array().unwrap().iter().map(|x| x.as_u64().unwrap() as usize).collect();
            let pending: Vec<usize> = w.get("pending_reads").and_then(|p| p.as_array()).map(|a| a.iter().map(|x| x.as_u64().unwrap() as usize).collect()).unwrap_or_default();
            let prologue = w["prologue"].as_u64().unwrap_or(0) as usize;
            let (exp, got) = run_chain(&flags, &script, &cuts, &pending, prologue);
            println!("flags (0 plain,1 oneway,2 more) = {flags:?} script = {script:?} reads that are Pending once = {pending:?}");
            println!("expected = {exp:?}");
            println!("got      = {got:?}");
            if exp != got {
                println!("REPLAY: FAILS on the real code");
                std::process::exit(1);
            }
            println!("REPLAY: passes on the real code");
        }
        Some("server") => {
            let wires: Vec<Vec<u8>> = w["wires_hex"].as_array().unwrap().iter().map(|x| unhex(x.as_str().unwrap())).collect();
            let cuts: Vec<usize> = w["cuts"].as_array().unwrap().iter().map(|x| x.as_u64().unwrap() as usize).collect();
            let (exp, got) = run_server(&wires, &cuts);
            for w in &wires { println!("wire     = {}", show(w)); }
            println!("expected = {exp:?}");
            println!("got      = {got:?}");
            if exp != got {
                println!("REPLAY: FAILS on the real code");
                std::process::exit(1);
            }
            println!("REPLAY: passes on the real code");
        }
        _ => {
            println!("replay file carries no executable witness (no-failing-input-found); obligation: {}", v["obligation"]);
            println!("{}", v["verifier_output"].as_str().unwrap_or(""));
        }
    }
}
