//! U6: Kani harnesses over the REAL `zlink-core/src/server/select_all.rs` (pulled in by #[path], no copy).
//! Bounded in the number of futures n (concrete per harness); everything else is symbolic over its
//! full domain: `start_index: Option<usize>`, the readiness vector(s).
#![allow(dead_code, unused_imports)]
extern crate alloc;

mod server {
    #[path = "/repo/zlink-core/src/server/select_all.rs"]
    pub mod select_all;

    #[cfg(kani)]
    pub mod harness {
        use super::select_all::SelectAll;
        use core::{
            cell::Cell,
            future::Future,
            pin::Pin,
            task::{Context, Poll, Waker},
        };

        /// A future that is ready or not as told and records the order in which it is polled.
        pub struct F<'a, const N: usize> {
            id: usize,
            ready: bool,
            order: &'a Cell<[usize; N]>,
            count: &'a Cell<usize>,
        }
        impl<const N: usize> Future for F<'_, N> {
            type Output = usize;
            fn poll(self: Pin<&mut Self>, _cx: &mut Context<'_>) -> Poll<usize> {
                let c = self.count.get();
                // [U6.order] "each at most once": more than N polls in one round is a violation
                assert!(c < N, "U6.order: a future was polled more than once in one round");
                let mut o = self.order.get();
                o[c] = self.id;
                self.order.set(o);
                self.count.set(c + 1);
                if self.ready {
                    Poll::Ready(self.id + 1000)
                } else {
                    Poll::Pending
                }
            }
        }

        /// One round of the real SelectAll over N futures; returns (result, poll order, polls made).
        fn round<const N: usize>(start: Option<usize>, ready: [bool; N]) -> (Poll<(usize, usize)>, [usize; N], usize) {
            let order = Cell::new([usize::MAX; N]);
            let count = Cell::new(0usize);
            let mut futs: [F<'_, N>; N] = core::array::from_fn(|i| F { id: i, ready: ready[i], order: &order, count: &count });
            let mut sel = SelectAll::new(start);
            for f in futs.iter_mut() {
                sel.push(f);
            }
            let mut cx = Context::from_waker(Waker::noop());
            let r = Pin::new(&mut sel).poll(&mut cx);
            (r, order.get(), count.get())
        }

        /// [U6.order] + [U6.no_overflow]
        fn check_rotation<const N: usize>() {
            let start: Option<usize> = kani::any();
            let ready: [bool; N] = kani::any();
            let (r, order, polls) = round::<N>(start, ready);
            let s = match start { Some(x) => x % N, None => 0 };
            // first ready future in rotation order
            let mut first: Option<usize> = None;
            let mut j = 0;
            while j < N {
                if first.is_none() && ready[(s + j) % N] {
                    first = Some(j);
                }
                j += 1;
            }
            kani::cover!(first.is_none(), "none ready is reachable");
            kani::cover!(matches!(first, Some(k) if k + 1 == N), "last in rotation order wins is reachable");
            match first {
                Some(k) => {
                    assert!(polls == k + 1, "U6.order: polls up to and including the first ready future");
                    assert!(r == Poll::Ready(((s + k) % N, (s + k) % N + 1000)), "U6.order: winner is the first ready future in rotation order");
                }
                None => {
                    assert!(polls == N, "U6.order: every future polled once when none is ready");
                    assert!(r == Poll::Pending, "U6.order: pending iff none ready");
                }
            }
            let mut j = 0;
            while j < N {
                if j < polls {
                    assert!(order[j] == (s + j) % N, "U6.order: polled in rotation order s, s+1, ...");
                }
                j += 1;
            }
        }

        /// [U6.two_rounds] the server's use: next round starts at winner + 1; with an unchanged set of
        /// N connections, if somebody else is ready in round 2, the round-1 winner does not win again.
        fn check_two_rounds<const N: usize>() {
            let start: Option<usize> = kani::any();
            let ready1: [bool; N] = kani::any();
            let ready2: [bool; N] = kani::any();
            let (r1, _, _) = round::<N>(start, ready1);
            if let Poll::Ready((w, _)) = r1 {
                assert!(w < N, "U6.order: winner index in range");
                // glue in Server::run: last_method_call_winner = Some(idx); start = last.map(|idx| idx + 1)
                let (r2, _, _) = round::<N>(Some(w).map(|idx| idx + 1), ready2);
                let mut other_ready = false;
                let mut j = 0;
                while j < N {
                    if j != w && ready2[j] {
                        other_ready = true;
                    }
                    j += 1;
                }
                if other_ready {
                    let w2 = match r2 {
                        Poll::Ready((w2, _)) => Some(w2),
                        Poll::Pending => None,
                    };
                    assert!(w2.is_some(), "U6.two_rounds: somebody was ready, so round 2 is not pending");
                    assert!(w2 != Some(w), "U6.two_rounds: the same connection is not served twice while another has a call waiting");
                }
            }
        }

        #[kani::proof]
        #[kani::unwind(2)]
        fn empty_is_pending() {
            let start: Option<usize> = kani::any();
            let mut sel: SelectAll<'_, F<'_, 1>> = SelectAll::new(start);
            let mut cx = Context::from_waker(Waker::noop());
            assert!(Pin::new(&mut sel).poll(&mut cx) == Poll::Pending, "U6.order: n = 0 is pending");
        }

        macro_rules! harnesses {
            ($($n:literal $rot:ident $two:ident $unw:literal;)*) => {$(
                #[kani::proof]
                #[kani::unwind($unw)]
                fn $rot() { check_rotation::<$n>(); }
                #[kani::proof]
                #[kani::unwind($unw)]
                fn $two() { check_two_rounds::<$n>(); }
            )*};
        }
        harnesses! {
            1 rotation_n1 two_rounds_n1 3;
            2 rotation_n2 two_rounds_n2 4;
            3 rotation_n3 two_rounds_n3 5;
            4 rotation_n4 two_rounds_n4 6;
            5 rotation_n5 two_rounds_n5 7;
        }
    }
}
