#!/usr/bin/env python3
"""check.py <Cxx> [--tier quick|thorough]     decide one property on /repo's current working tree
   check.py replay <file>                    re-run a recorded violation against the real code

exit 0  every obligation tagged with the property was discharged (KNOWN-FINDING lines may be printed)
exit 1  a tagged obligation that is discharged on the unchanged tree fails: `VIOLATION property=<id> replay=<path>`
exit 2  UNDECIDED: extraction lost an item/anchor, the verifier hit a resource limit or an
        unsupported construct, a vacuity guard tripped.  Never reported as a violation.
"""
import argparse
import hashlib
import json
import os
import re
import subprocess
import sys
import time

HERE = os.path.dirname(os.path.abspath(__file__))
sys.path.insert(0, os.path.join(HERE, "tools"))
import extract      # noqa: E402
import verus_run    # noqa: E402
import kani_run     # noqa: E402
import teeth        # noqa: E402

REPO = os.environ.get("VERIF_REPO", "/repo")
BUILD = os.path.join(HERE, "build")
CONF = json.load(open(os.path.join(HERE, "contracts", "units.json")))


def log(*a):
    print(*a, flush=True)


class Undecided(Exception):
    pass


# ----------------------------------------------------------------------------------------------
def load_known():
    """known_findings.txt: `finding: property=<id> obligation=<oid> what=...` / `fixed: ...`"""
    out = []
    p = os.path.join(HERE, "known_findings.txt")
    if os.path.exists(p):
        for ln in open(p):
            ln = ln.strip()
            if ln.startswith("finding:"):
                kv = dict(re.findall(r"(\w+)=(\S+)", ln))
                what = ln.split("what=", 1)[1] if "what=" in ln else ""
                out.append({"property": kv.get("property"), "obligation": kv.get("obligation"), "witness": kv.get("witness"), "what": what})
    return out


# ----------------------------------------------------------------------------------------------
def attribute(diag, meta, rs_path):
    """failing diagnostic -> obligation record"""
    linemap = meta["linemap"]
    items = meta["items"]
    base = os.path.basename(rs_path)

    def info(line):
        if line and 1 <= line <= len(linemap):
            return linemap[line - 1]
        return {}

    def item_of(line):
        for it in items:
            if it["gen_lines"][0] <= line <= it["gen_lines"][1]:
                return it
        return None
    prim = [s for s in diag["spans"] if s["primary"] and s["file"] and s["file"].endswith(base)]
    allsp = [s for s in diag["spans"] if s["file"] and s["file"].endswith(base)]
    site = prim[0] if prim else (allsp[0] if allsp else None)
    site_line = site["line_start"] if site else None
    it = item_of(site_line) if site_line else None
    clause = None
    ctags = None
    # a span that lies on an injected clause names the obligation
    for s in allsp:
        for ln in range(s["line_end"], s["line_start"] - 1, -1):
            i = info(ln)
            if i.get("k") == "inj" and not str(i.get("clause", "")).startswith("CANARY."):
                # callee's precondition (clause of another item) or own clause
                if clause is None or (s["label"] and "failed" in s["label"]):
                    clause, ctags, citem = i["clause"], i.get("tags"), i.get("item")
                break
    msg = diag["message"]
    if it is None and clause is not None:
        it = next((x for x in items if x["id"] == citem), None)
    src = None
    if site_line:
        i = info(site_line)
        if i.get("k") == "src":
            src = f"{i['file']}:{i['line']}"
    kind = msg.split(":")[0]
    if clause and it and citem == it["id"]:
        oid = clause
        tags = ctags or it["tags"]
    elif clause and it:
        # caller `it` fails the precondition `clause` of callee `citem`
        oid = f"{it['id']}>>{clause}"
        tags = it["tags"]
    elif it:
        short = re.sub(r"[^a-z]+", "_", kind.lower()).strip("_")
        oid = f"{it['id']}.safety.{short}"
        tags = it["tags"]
    else:
        oid = "prelude." + re.sub(r"[^a-z]+", "_", kind.lower()).strip("_")
        tags = []
    return {"obligation": oid, "item": it["id"] if it else None, "fn": it["path"] if it else None, "tags": list(tags or []),
            "message": msg, "repo_site": src, "gen_line": site_line, "rendered": diag.get("rendered", "")[:3000]}


def run_verus_unit(unit, tier, seed, prop):
    ucfg = CONF["units"][unit]
    tmpl = os.path.join(HERE, "contracts", ucfg["template"])
    os.makedirs(os.path.join(BUILD, prop), exist_ok=True)
    rs = os.path.join(BUILD, prop, unit + ".rs")
    try:
        try:
            meta = extract.generate(REPO, tmpl, rs, rs + ".map.json")
        except extract.LostAid:
            # the loop / statement a proof aid was attached to is gone: verify without that aid; the contracts,
            # not the aids, decide (see DESIGN.md section 12, "lost aids")
            meta = extract.generate(REPO, tmpl, rs, rs + ".map.json", lenient=True)
    except extract.ExtractError as e:
        raise Undecided(f"extraction of unit {unit}: {e}")
    res = verus_run.run(rs, log_dir=os.path.join(BUILD, prop, unit + ".vlog"))
    if not res["json_ok"]:
        raise Undecided(f"verus produced no result for {unit}: {res['raw_stderr_tail'][-1500:]}")
    fails, undec = [], []
    for d in res["diagnostics"]:
        if d["class"] == "obligation":
            fails.append(attribute(d, meta, rs))
        elif d["class"] == "undecided":
            undec.append(d["message"])
        else:
            undec.append("verus/rustc error (not an obligation): " + d["message"] + " " + d.get("rendered", "")[:800])
    # de-duplicate obligations
    seen, uniq = set(), []
    for f in fails:
        k = (f["obligation"], f["gen_line"])
        if k not in seen:
            seen.add(k)
            uniq.append(f)
    # vacuity guard (i): every extracted non-trusted fn was verified and produced obligations
    unitname = unit
    fnres = res["functions"]
    airc = res.get("air_asserts", {})
    per_fn = []
    for it in meta["items"]:
        if it["kind"] != "fn":
            continue
        ename = it.get("emitted_name", it["name"])
        # the type a method belongs to (`impl X/fn f`, `impl T for X/fn f`): several impls of one unit may have a method of the
        # same name (`write` of the two transports and of Connection), so match `X::f` where the verifier reports it that way
        m_ty = re.match(r"impl (?:.* for )?(\w+)(?:#\d+)?/fn ", it["path"])
        ty = m_ty.group(1) if m_ty else None
        def _sel(keys):
            ks = [k for k in keys if k.split("::")[-1] == ename]
            if ty:
                kt = [k for k in ks if len(k.split("::")) >= 2 and k.split("::")[-2] == ty]
                if kt:
                    return kt
            return ks
        cands = _sel(fnres)
        n_obl = sum(airc[k] for k in _sel(airc))
        per_fn.append({"id": it["id"], "path": it["path"], "file": it["file"], "line": it["line"], "sha256": it["sha256"],
                       "trusted": it["trusted"], "tags": it["tags"],
                       "smt_ms": sum(fnres[k]["ms"] or 0 for k in cands), "rlimit": sum(fnres[k]["rlimit"] or 0 for k in cands),
                       "verified": bool(cands) and all(fnres[k]["success"] for k in cands), "air_asserts": n_obl,
                       "backend": "verus/z3"})
    return {"unit": unit, "meta": meta, "res": res, "fails": uniq, "undecided": undec, "per_fn": per_fn, "rs": rs}


def run_canaries(unit, prop):
    ucfg = CONF["units"][unit]
    tmpl = os.path.join(HERE, "contracts", ucfg["template"])
    rs = os.path.join(BUILD, prop, unit + "_canary.rs")
    try:
        try:
            meta = extract.generate(REPO, tmpl, rs, rs + ".map.json", canary=True)
        except extract.LostAid:
            meta = extract.generate(REPO, tmpl, rs, rs + ".map.json", canary=True, lenient=True)
    except extract.ExtractError as e:
        raise Undecided(f"canary extraction of unit {unit}: {e}")
    res = verus_run.run(rs, multiple_errors=200)
    failed_lines = set()
    hard = [d["message"][:300] for d in res["diagnostics"] if verus_run.classify(d["message"]) == "other" and d.get("level", "error") == "error" and not d["message"].startswith("aborting")]
    if hard and not any("assertion failed" in d["message"] for d in res["diagnostics"]):
        # the canary copy does not even compile (e.g. the template calls a lemma that lives in a `nocanary` include): that says
        # nothing about the canaries
        raise Undecided(f"canary copy of unit {unit} was not verified (compile error, not an obligation): {hard[0]}")
    for d in res["diagnostics"]:
        if "assertion failed" in d["message"]:
            for s in d["spans"]:
                failed_lines.add(s["line_start"])
    want = {}
    for n, info in enumerate(meta["linemap"], 1):
        if info.get("k") == "inj" and str(info.get("clause", "")).startswith("CANARY."):
            want[info["clause"]] = n
    alive = [c for c, ln in want.items() if ln not in failed_lines]
    return {"canaries": len(want), "failed_as_required": len(want) - len(alive), "verified_unexpectedly": alive,
            "detail": meta["canaries"]}


# ----------------------------------------------------------------------------------------------
def replay_bin():
    crate = os.path.join(HERE, "replay")
    p = subprocess.run(["cargo", "build", "--offline", "--quiet"], cwd=crate, capture_output=True, text=True,
                       env=dict(os.environ, CARGO_NET_OFFLINE="true"))
    if p.returncode != 0:
        return None, p.stderr[-3000:]
    return os.path.join(BUILD, "replay-target", "debug", "replay"), ""


def find_witness(prop, seed, budget, in_memory_only=False):
    kind = CONF["properties"][prop].get("witness_search")
    if in_memory_only and kind:
        # the cross-check of the quick tier: deterministic in-memory harnesses only (no real sockets, no timers)
        kind = [k for k in kind if k != "rt_bulk"]
    if not kind:
        return None, "no concrete search harness exists for this property"
    if kind == ["rt_notified"]:
        crate = os.path.join(HERE, "replay_rt")
        b = subprocess.run(["cargo", "build", "--offline", "--quiet"], cwd=crate, capture_output=True, text=True,
                           env=dict(os.environ, CARGO_NET_OFFLINE="true"))
        if b.returncode != 0:
            return None, "replay_rt does not build against the current tree: " + b.stderr[-600:]
        exe_rt = os.path.join(BUILD, "replay-rt-target", "debug", "zlink-replay-rt")
        depth = "6" if budget <= 200000 else "8"
        for rtm in ("tokio", "smol"):
            p = subprocess.run([exe_rt, "notified", rtm, depth], capture_output=True, text=True, timeout=600)
            if p.returncode != 0:
                return {"kind": "rt_bulk", "mode": "notified", "runtime": rtm,
                        "output": (p.stdout[-1200:] + "\n" + "\n".join(p.stderr.splitlines()[:3]))}, ""
        return None, f"every schedule of <= {depth} set / subscribe / poll operations (<= 3 subscribers) and the 4 one-shot scenarios behaved as the property says under both runtimes"
    if "rt_bulk" in kind:
        # real Unix socket pairs under both runtimes (replay_rt): a large pipelined flush must arrive intact
        crate = os.path.join(HERE, "replay_rt")
        b = subprocess.run(["cargo", "build", "--offline", "--quiet"], cwd=crate, capture_output=True, text=True,
                           env=dict(os.environ, CARGO_NET_OFFLINE="true"))
        if b.returncode != 0:
            return None, "replay_rt does not build against the current tree: " + b.stderr[-600:]
        exe_rt = os.path.join(BUILD, "replay-rt-target", "debug", "zlink-replay-rt")
        for mode in ("bulk", "atomic", "halves", "hangup"):
            for rtm in ("tokio", "smol"):
                p = subprocess.run([exe_rt, mode, rtm], capture_output=True, text=True, timeout=600)
                if p.returncode == 1:
                    return {"kind": "rt_bulk", "mode": mode, "runtime": rtm, "output": p.stdout[-1500:]}, ""
        if kind == ["rt_bulk"]:
            return None, ("the bulk transfer, the abandoned sends of frames below the atomic-write size, the dropped-write-half and the hang-up-after-send scenarios over real socket pairs "
                          "arrived intact under both runtimes")
        kind = [k for k in kind if k != "rt_bulk"]     # ... and go on with the in-memory harnesses of the connection layer
    exe, err = replay_bin()
    if not exe:
        return None, "replay crate does not build against the current tree: " + err[-800:]
    os.makedirs(os.path.join(BUILD, prop), exist_ok=True)
    out = os.path.join(BUILD, prop, f"witness-{prop}.json")
    if os.path.exists(out):
        os.remove(out)
    for k in kind:
        if k == "ser":
            cmd = [os.path.join(os.path.dirname(exe), "serdiff"), "search", str(seed), str(budget), out]
        else:
            cmd = [exe, "search", k, str(seed), str(budget), out]
        p = subprocess.run(cmd, capture_output=True, text=True, timeout=150)
        if p.returncode == 1 and os.path.exists(out):
            return json.load(open(out)), ""
    return None, "search over generated inputs found no failing input"


# ----------------------------------------------------------------------------------------------
def write_evidence(prop, tier, seed, level, coverage, assumptions, wall, violations):
    ev = {"property_id": prop, "tier": tier, "seed": seed, "level": level, "coverage": coverage,
          "assumptions": assumptions, "wall_s": round(wall, 2), "violations": violations}
    os.makedirs(os.path.join(HERE, "evidence"), exist_ok=True)
    with open(os.path.join(HERE, "evidence", prop + ".json"), "w") as f:
        json.dump(ev, f, indent=1)


def scan_assumptions(rs_path):
    """mechanical scan of the generated file for everything that is assumed rather than proved"""
    out = []
    pat = re.compile(r"\b(assume\s*\(|admit\s*\(|external_body|assume_specification|uninterp\b|axiom\b|external_type_specification|external_fn_specification)")
    lines = open(rs_path).read().split("\n")
    for n, ln in enumerate(lines, 1):
        if "ASSUMED" in ln:
            out.append(f"{os.path.basename(rs_path)}:{n}: {ln.strip()[:220]}")
            continue
        if ln.strip().startswith("//"):
            continue
        m = pat.search(ln)
        if m:
            ctx = ln.strip()
            # for external_body attach the following signature line
            if "external_body" in ln:
                for k in range(n, min(n + 4, len(lines))):
                    if re.search(r"\b(fn|struct)\b", lines[k]):
                        ctx = "external_body: " + lines[k].strip()
                        break
            out.append(f"{os.path.basename(rs_path)}:{n}: {ctx[:200]}")
    return out


def check_property(prop, tier, seed):
    t0 = time.time()
    pcfg = CONF["properties"][prop]
    known = [k for k in load_known() if k["property"] == prop]
    unit_results = []
    assumptions = list(pcfg.get("assumptions", []))
    violations = []       # obligations tagged prop that fail and are not known findings
    known_hits = []
    undecided = []
    obligations = discharged = 0
    samples = []
    fn_reports = []
    rules = []
    canary_reports = {}
    bounded = []
    checker_cmds = []
    thorough_extra = {}
    # all Verus units of the property (and their canary runs) are started at once; results are consumed in unit order
    from concurrent.futures import ThreadPoolExecutor
    _vunits = [u for u in pcfg["units"] if CONF["units"][u]["kind"] == "verus"]
    _pool = ThreadPoolExecutor(max_workers=max(2, 2 * len(_vunits)))
    def _guard(fn, *a):
        try:
            return fn(*a)
        except Undecided as e:
            return e
    _fut_main = {u: _pool.submit(_guard, run_verus_unit, u, tier, seed, prop) for u in _vunits}
    _fut_can = {u: _pool.submit(_guard, run_canaries, u, prop) for u in _vunits}
    for unit in pcfg["units"]:
        ucfg = CONF["units"][unit]
        if ucfg["kind"] == "verus":
            ur = _fut_main[unit].result()
            if isinstance(ur, Undecided):
                raise ur
            cr_pre = _fut_can[unit].result()
            checker_cmds.append(ur["res"]["cmd"])
            ptags = {prop} | set(pcfg.get("extra_tags", []))
            relevant_fail = [f for f in ur["fails"] if ptags & set(f["tags"])]
            other_fail = [f for f in ur["fails"] if not (ptags & set(f["tags"]))]
            undecided += ur["undecided"]
            # obligations: AIR asserts of the functions tagged with this property
            for pf in ur["per_fn"]:
                if (ptags & set(pf["tags"])) and not pf["trusted"]:
                    obligations += pf["air_asserts"]
                    fn_reports.append(pf)
                    if not pf["verified"] and not any(f["item"] == pf["id"] for f in ur["fails"]):
                        undecided.append(f"function {pf['path']} was not verified and no obligation failure explains it")
                elif ptags & set(pf["tags"]):
                    fn_reports.append(pf)
            nfail = len(relevant_fail)
            for f in relevant_fail:
                kf = next((k for k in known if k["obligation"] == f["obligation"]), None)
                if kf:
                    known_hits.append((kf, f))
                else:
                    violations.append(f)
            for cid, c in ur["meta"]["clauses"].items():
                if prop in c["tags"] and len(samples) < 12:
                    samples.append({"obligation": cid, "fn": c["fn"], "clause": c["text"][:300]})
            rules += ur["meta"]["rules"]
            assumptions += scan_assumptions(ur["rs"])
            if other_fail:
                log(f"note: {len(other_fail)} failing obligation(s) in unit {unit} are not tagged {prop}: "
                    + ", ".join(sorted({f['obligation'] for f in other_fail})))
            # vacuity guard (ii): canaries
            if isinstance(cr_pre, Undecided):
                raise cr_pre
            cr = cr_pre
            canary_reports[unit] = cr
            if cr["verified_unexpectedly"] and not any("rustc error" in u for u in ur["undecided"]):
                # (when the generated file does not even compile no canary can fail: that says nothing about vacuity)
                undecided.append(f"vacuity: canaries verified in unit {unit}: {cr['verified_unexpectedly']}")
            if cr["canaries"] == 0:
                undecided.append(f"vacuity: unit {unit} has no canaries")
            if tier == "thorough" and not [f for f in relevant_fail if f["obligation"] not in {k["obligation"] for k in known}]:
                # (a) stability: other Z3 seeds and a halved resource limit (informational: a proof that flips is
                #     reported as unstable in the evidence; it is neither a violation nor a pass/fail criterion)
                stab = []
                for k in range(1, 4):
                    r2 = verus_run.run(ur["rs"], seed=seed * 7919 + k, rlimit=5)
                    stab.append({"z3_seed": seed * 7919 + k, "rlimit": 5, "errors": r2["errors"], "verified": r2["verified"],
                                 "messages": sorted({d["message"][:80] for d in r2["diagnostics"]})})
                thorough_extra.setdefault("stability", {})[unit] = stab
                # (b) teeth: mutants of the generated text must be rejected
                tr = teeth.run(ur["rs"], ur["meta"], seed, int(os.environ.get("VERIF_MUTANTS", "48")), os.path.join(BUILD, prop, "mutants"),
                               baseline_diags=[d for d in ur["res"]["diagnostics"] if d["class"] == "obligation"])
                thorough_extra.setdefault("teeth", {})[unit] = tr
                log(f"teeth[{unit}]: {tr['rejected']}/{tr['mutants']} mutants rejected ({tr['rejected_by_obligation']} by a failed obligation); {len(tr['survivors'])} survivors")
            unit_results.append(ur)
        elif ucfg["kind"] == "kani":
            kr = kani_run.run_unit(HERE, REPO, unit, ucfg, tier, prop)
            checker_cmds += kr["cmds"]
            obligations += kr["checks"]
            undecided += kr["undecided"]
            for f in kr["fails"]:
                kf = next((k for k in known if k["obligation"] == f["obligation"]), None)
                if kf:
                    known_hits.append((kf, f))
                else:
                    violations.append(f)
            samples += kr["samples"][:8]
            bounded += kr["bounded"]
            fn_reports += kr["fn_reports"]
            assumptions += kr["assumptions"]
    # obligations listed as known findings are reported separately: they are neither expected to be
    # discharged nor counted as such
    known_ids = {f["obligation"] for _, f in known_hits}
    obligations = max(0, obligations - len(known_ids))
    failing_ids = {f["obligation"] for f in violations}
    discharged = max(0, obligations - len(failing_ids))
    if obligations == 0:
        undecided.append("vacuity: zero obligations were generated")
    wall = time.time() - t0
    level = pcfg.get("level", "proof")
    coverage = {
        "obligations": obligations, "discharged": discharged if not violations and not known_hits else discharged,
        "checker_cmd": " ; ".join(checker_cmds)[:2000],
        "trusted_base": sorted(set(assumptions))[:400],
        "functions_under_contract": fn_reports,
        "extraction_rules_applied": rules,
        "canaries": canary_reports,
        "bounded": bounded,
        "thorough": thorough_extra,
        "known_findings_reported": [{"obligation": f["obligation"], "what": kf["what"][:300]} for kf, f in known_hits],
        "unchecked_on_paper": pcfg.get("unchecked", []),
        "samples": samples,
        # the proof-mode functions (lemmas over the contracts and the specs: the round-trip theorems, the inductions over
        # histories ...) that the verifier accepted in the units of this property, with their solver time
        "lemmas_proved": sorted({f"{ur['unit']}::{k.split('::')[-1]}" for ur in unit_results for k, v in ur["res"]["functions"].items()
                                 if v.get("mode") == "proof" and v.get("success")}),
        "smt_ms_total": sum(p.get("smt_ms", 0) for p in fn_reports),
        "explanation": pcfg.get("explanation", ""),
        "evaluations": obligations, "distinct_nontrivial": len({s["obligation"] for s in samples}),
        "rule": "one evaluation = one labelled AIR assert / CBMC check generated for a function tagged with the property; samples are contract clauses",
    }
    # the theorems the claimed level rests on must be among the lemmas the verifier accepted in this run
    for L in pcfg.get("required_lemmas", []):
        if not any(x.endswith("::" + L) for x in coverage["lemmas_proved"]):
            undecided.append(f"the lemma {L}, which the claim of this property names, was not proved in this run")
    if tier == "thorough" and pcfg.get("thorough_replay"):
        reps = []
        for cmd in pcfg["thorough_replay"]:
            try:
                p = subprocess.run(cmd, shell=True, cwd=HERE, capture_output=True, text=True, timeout=1800)
                reps.append({"cmd": cmd, "rc": p.returncode, "tail": (p.stdout + p.stderr).strip().splitlines()[-3:]})
            except Exception as e:
                reps.append({"cmd": cmd, "rc": None, "tail": [str(e)]})
        coverage["thorough"]["finding_replays"] = reps
    lost = [a for ur in unit_results for a in ur["meta"].get("lost_aids", [])]
    coverage["lost_aids"] = lost
    rc = 0
    crosscheck_hit = False
    if not violations and not undecided and pcfg.get("witness_search"):
        # cross-check of what the contracts ASSUME (leaf stubs, on-paper composition, what the normalisation rules abstract:
        # N1 erases suspension points, N29 the priority of select arms): the search harnesses run the real code on generated
        # inputs / schedules although every obligation was discharged.  A failing input here refutes an assumption (or shows
        # a defect outside the functions under contract) and is reported as a violation with that input as witness.  Bounded
        # search: never counted as proved.  Thorough tier: every harness, large budget.  Quick tier (added after seed C18h - a
        # yield in the read loop, invisible to the contracts, was MISSED): the deterministic in-memory harnesses only, small budget.
        t_s = time.time()
        xbudget = 2000000 if tier == "thorough" else 20000
        try:
            witness, why = find_witness(prop, seed, xbudget, in_memory_only=(tier != "thorough"))
        except Exception as e:
            witness, why = None, f"search crashed: {e}"
        tgt = coverage.setdefault("thorough" if tier == "thorough" else "quick_search_crosscheck", {})
        tgt["search_crosscheck"] = {"harnesses": [k for k in pcfg["witness_search"] if tier == "thorough" or k != "rt_bulk"], "budget": xbudget, "wall_s": round(time.time() - t_s, 1),
                                    "result": "FAILING INPUT FOUND" if witness else why, "counts_as": "bounded search, not proof"}
        if witness:
            os.makedirs(os.path.join(HERE, "replays"), exist_ok=True)
            path = os.path.join(HERE, "replays", f"{prop}-search-crosscheck.json")
            json.dump({"property": prop, "obligation": "(all obligations discharged) search harness found a failing input on the real code",
                       "function": None, "repo_site": None,
                       "message": "an assumed contract (leaf stub / on-paper composition) is refuted by this input, or the defect lies outside the functions under contract",
                       "verifier_output": "", "witness": witness, "no_witness_reason": None,
                       "replay_cmd": f"python3 check.py replay {path}"}, open(path, "w"), indent=1)
            log("every obligation is discharged, but the search harness found a failing input on the real code (an assumption is refuted)")
            log(f"VIOLATION property={prop} replay={path}")
            crosscheck_hit = True
    for kf, f in known_hits:
        log(f"KNOWN-FINDING: property={prop} obligation={f['obligation']} {kf['what']}")
    # findings that no obligation expresses (found by a search harness): listed with their witness; the witness is
    # replayed on the current tree on every run and the line is printed only while it still fails there
    witness_findings = []
    for kf in known:
        if kf.get("witness") and not kf.get("obligation"):
            exe, err = replay_bin()
            if not exe:
                witness_findings.append({"witness": kf["witness"], "replayed": "replay crate does not build: " + err[-200:]})
                continue
            try:
                pr = subprocess.run([exe, os.path.join(HERE, kf["witness"])], capture_output=True, text=True, timeout=300)
                still = pr.returncode == 1 and "REPLAY: FAILS" in pr.stdout
            except Exception as e:
                still, pr = False, None
            witness_findings.append({"witness": kf["witness"], "replayed": "fails on the current tree" if still else "no longer fails on the current tree", "what": kf["what"][:300]})
            if still:
                log(f"KNOWN-FINDING: property={prop} witness={kf['witness']} {kf['what']}")
    if witness_findings:
        coverage["known_findings_by_witness"] = witness_findings
    if violations:
        os.makedirs(os.path.join(HERE, "replays"), exist_ok=True)
        witness, why = (None, "")
        try:
            witness, why = find_witness(prop, seed, 20000 if tier == "quick" else 200000)
        except Exception as e:  # the search is best effort
            why = f"witness search crashed: {e}"
        # proof aids are lost per item: only a failure inside an item that lost aids is a failed proof rather than a
        # failed obligation; a failure in an item whose aids are all in place stands whatever happened elsewhere
        def lost_for(f):
            return [a for a in lost if f.get("item") and a.split(":")[0].strip() == f["item"]]
        # a failed HINT (an injected proof step: assert / lemma call whose id contains `.hint`) with every contract clause,
        # invariant and safety obligation discharged says nothing about the code: the rest was proved assuming the hint.
        # It is a failed proof, not a failed obligation - decided only by a replayed witness.
        def is_hint(f):
            return ".hint" in f["obligation"].split(">>")[-1] or ".hint" in f["obligation"]
        if all(is_hint(f) for f in violations) and not witness:
            undecided.append("only proof hints fail (" + ", ".join(sorted({f["obligation"] for f in violations}))[:300] +
                             "): every contract clause was discharged assuming them, and no failing input was found")
            violations = []
        solid = [f for f in violations if not lost_for(f) and not is_hint(f)] or [f for f in violations if not lost_for(f)]
        for f in (solid or violations)[:1]:
            path = os.path.join(HERE, "replays", f"{prop}-{re.sub(r'[^A-Za-z0-9_.-]+', '_', f['obligation'])}.json")
            rep = {"property": prop, "obligation": f["obligation"], "function": f["fn"], "repo_site": f["repo_site"],
                   "message": f["message"], "verifier_output": f["rendered"], "all_failed_obligations": [v["obligation"] for v in violations],
                   "witness": witness, "no_witness_reason": None if witness else why,
                   "replay_cmd": f"python3 check.py replay {path}"}
            json.dump(rep, open(path, "w"), indent=1)
            if lost_for(f) and not witness:
                # proof aids were lost AND no failing input replays on the real code: a failed proof, not a verdict
                undecided.append(f"obligation {f['obligation']} fails, but proof aids were lost ({'; '.join(lost_for(f))[:300]}) and no failing input was found")
                violations = []
                break
            suffix = "" if witness else " no-failing-input-found"
            log(f"failed obligation {f['obligation']} in {f['fn']} ({f['repo_site']}): {f['message']}")
            log(f"VIOLATION property={prop} replay={path}{suffix}")
        rc = 1 if violations else 0
    if not violations and undecided and pcfg.get("witness_search"):
        # the proof could not be (re)established — lost items / unsupported constructs / lost aids.  That is
        # never a verdict by itself; but a failing input that replays on the real code is one.
        try:
            witness, why = find_witness(prop, seed, 20000 if tier == "quick" else 200000)
        except Exception as e:
            witness, why = None, f"witness search crashed: {e}"
        if witness:
            os.makedirs(os.path.join(HERE, "replays"), exist_ok=True)
            path = os.path.join(HERE, "replays", f"{prop}-undecided-proof-with-witness.json")
            json.dump({"property": prop, "obligation": "(proof undecided) replayed failing input", "function": None, "repo_site": None,
                       "message": "the contracts could not be re-established on this tree and a failing input was found on the real code",
                       "verifier_output": "\n".join(undecided)[:3000], "witness": witness, "no_witness_reason": None,
                       "replay_cmd": f"python3 check.py replay {path}"}, open(path, "w"), indent=1)
            log(f"proof undecided ({undecided[0][:200]}); a failing input replays on the real code")
            log(f"VIOLATION property={prop} replay={path}")
            violations = [{"obligation": "undecided-proof-with-witness"}]
            rc = 1
    if not violations and undecided:
        for u in undecided[:10]:
            log(f"UNDECIDED property={prop}: {u[:1500]}")
        rc = 2
    if crosscheck_hit:
        rc = 1
    write_evidence(prop, tier, seed, level, coverage, sorted(set(assumptions))[:400], wall, len(violations) + (1 if crosscheck_hit else 0))
    if rc == 0:
        log(f"OK property={prop} obligations={obligations} discharged={discharged} wall={wall:.1f}s")
    return rc


def replay(path):
    exe, err = replay_bin()
    if not exe:
        log("replay crate does not build:", err)
        return 2
    try:
        w = json.load(open(path)).get("witness") or {}
    except Exception:
        w = {}
    if w.get("kind") == "rt_bulk":
        crate = os.path.join(HERE, "replay_rt")
        subprocess.run(["cargo", "build", "--offline", "--quiet"], cwd=crate, env=dict(os.environ, CARGO_NET_OFFLINE="true"))
        return subprocess.call([os.path.join(BUILD, "replay-rt-target", "debug", "zlink-replay-rt"), w.get("mode", "bulk"), w.get("runtime", "tokio")])
    if w.get("kind") == "ser":
        exe = os.path.join(os.path.dirname(exe), "serdiff")
    return subprocess.call([exe, path])


def main():
    if len(sys.argv) >= 3 and sys.argv[1] == "replay":
        sys.exit(replay(sys.argv[2]))
    ap = argparse.ArgumentParser()
    ap.add_argument("prop")
    ap.add_argument("--tier", default=os.environ.get("VERIF_TIER", "quick"))
    a = ap.parse_args()
    seed = int(os.environ.get("VERIF_SEED", "1") or 1)
    os.makedirs(BUILD, exist_ok=True)
    try:
        rc = check_property(a.prop, a.tier, seed)
    except Undecided as e:
        rc_w = None
        if CONF["properties"][a.prop].get("witness_search"):
            try:
                witness, why = find_witness(a.prop, seed, 20000)
            except Exception:
                witness = None
            if witness:
                os.makedirs(os.path.join(HERE, "replays"), exist_ok=True)
                path = os.path.join(HERE, "replays", f"{a.prop}-undecided-proof-with-witness.json")
                json.dump({"property": a.prop, "obligation": "(proof undecided) replayed failing input", "message": str(e)[:2000],
                           "verifier_output": str(e)[:3000], "witness": witness, "replay_cmd": f"python3 check.py replay {path}"}, open(path, "w"), indent=1)
                log(f"proof undecided ({str(e)[:200]}); a failing input replays on the real code")
                log(f"VIOLATION property={a.prop} replay={path}")
                rc_w = 1
        if rc_w is None:
            log(f"UNDECIDED property={a.prop}: {e}")
        # evidence must still be rewritten
        write_evidence(a.prop, a.tier, seed, CONF["properties"][a.prop].get("level", "proof"),
                       {"obligations": 0, "discharged": 0, "checker_cmd": "n/a", "trusted_base": [], "evaluations": 0,
                        "distinct_nontrivial": 0, "explanation": f"undecided: {e}"}, [], 0.0, 1 if rc_w else 0)
        rc = rc_w or 2
    sys.exit(rc)


if __name__ == "__main__":
    main()
